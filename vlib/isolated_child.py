"""Runs emitted parser sources in an interpreter started with `-I -S` (no
site-packages, no PYTHONPATH): reads a JSON job from stdin, writes JSON to stdout.
Stand-alone on purpose: imports nothing outside the standard library."""
import json
import sys
import types


def is_parsed_object(v):
    t = type(v)
    return hasattr(t, '_fields') and hasattr(v, '_metadata') and hasattr(t, '_replace') and not isinstance(v, tuple)


def span_of(v):
    pi = v._metadata.position_info
    if not pi:
        return None
    try:
        s, e = pi.start.index, pi.end.index
    except AttributeError:
        return ('raw', repr(pi))
    if e < s:
        return None
    return (s, e)


def norm(v):
    if is_parsed_object(v):
        return ('obj', type(v).__name__, tuple((k, norm(getattr(v, k))) for k in type(v)._fields), span_of(v))
    if isinstance(v, list):
        return [norm(x) for x in v]
    if isinstance(v, tuple):
        return tuple(norm(x) for x in v)
    if isinstance(v, dict):
        return ('dict', tuple((norm(k), norm(x)) for k, x in v.items()))
    if type(v) is not str and isinstance(v, str):
        return str(v)
    if type(v) not in (int, bool) and isinstance(v, int) and not isinstance(v, bool):
        return int(v)
    return v


def outcome(g, entry, text, pos, fullparse):
    try:
        fn = g.parse if entry is None else getattr(g, entry).parse
        v = fn(text, pos, fullparse)
    except g.PartialParseError as e:
        return ('partial', norm(e.partial_result), e.last_position.index), e.last_position.index
    except g.ParseError as e:
        return ('error',), e.position.index
    except RecursionError:
        return ('other', 'RecursionError', ''), None
    except Exception as e:
        return ('other', type(e).__name__, str(e)[:160]), None
    return ('value', norm(v)), None


def main():
    sys.setrecursionlimit(12000)
    job = json.load(sys.stdin)
    out = []
    for item in job['items']:
        res = dict(id=item['id'])
        try:
            mods = []
            srcs = item['sources']
            for k, (name, src) in enumerate(srcs):
                if k == len(srcs) - 1 and item.get('leaf_name'):
                    # the saved source of the last module is loaded under a name of the user's choosing
                    name = item['leaf_name']
                # a dotted name lives in a package: make the (empty) packages importable
                parts = name.split('.')
                for j in range(1, len(parts)):
                    pk = '.'.join(parts[:j])
                    if pk not in sys.modules:
                        pm = types.ModuleType(pk)
                        pm.__path__ = []
                        sys.modules[pk] = pm
                        if j > 1:
                            setattr(sys.modules['.'.join(parts[:j - 1])], parts[j - 1], pm)
                m = types.ModuleType(name)
                if len(parts) > 1:
                    setattr(sys.modules['.'.join(parts[:-1])], parts[-1], m)
                # emitted modules carry their description in __doc__ (needed by `extends`)
                code = compile(src, '<%s>' % name, 'exec')
                sys.modules[name] = m
                exec(code, m.__dict__)
                mods.append(name)
            g = sys.modules[mods[-1]]
            outs = []
            for entry, text_repr, pos, fp in item['calls']:
                text = eval(text_repr)
                o, idx = outcome(g, entry, text, pos, fp)
                outs.append([repr(o), idx])
            res['outcomes'] = outs
            for name in mods:
                sys.modules.pop(name, None)
        except BaseException as e:
            res['load_error'] = '%s: %s' % (type(e).__name__, str(e)[:200])
        res['foreign_modules'] = sorted(m for m in sys.modules if m.split('.')[0] in ('sourcer', 'outsourcer'))
        out.append(res)
    json.dump(dict(results=out, flags=[sys.flags.isolated, sys.flags.no_site],
                   path=[p for p in sys.path if 'site-packages' in p or p.rstrip('/').endswith('/repo')]), sys.stdout)


if __name__ == '__main__':
    main()
