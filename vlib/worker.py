"""Worker process: runs one shard of one check and writes a JSON result."""
import faulthandler
import importlib
import json
import os
import random
import resource
import sys
import threading
import time
import traceback
import warnings


class Recorder:
    MAX_VIOL = int(os.environ.get('VERIF_MAX_VIOL', '400'))
    PER_SIG = int(os.environ.get('VERIF_PER_SIG', '3'))

    def __init__(self, prop, tier, seed, shard, nshards):
        self.prop, self.tier, self.seed, self.shard, self.nshards = prop, tier, seed, shard, nshards
        self.evaluations = 0
        self._nontrivial = set()
        self.counters = {}
        self.maxes = {}
        self.samples = []
        self.violations = []
        self._vsigs = {}
        self.dropped = 0
        self.notes = []
        self.rng = random.Random((seed * 1000003 + shard) & 0xffffffff)
        self.t0 = time.time()
        self.deadline = None

    # -- bookkeeping --------------------------------------------------------
    def case(self, n=1):
        self.evaluations += n

    def nontrivial(self, key):
        self._nontrivial.add(hash(key))

    def count(self, name, n=1):
        self.counters[name] = self.counters.get(name, 0) + n

    def maxi(self, name, v):
        if v > self.maxes.get(name, v - 1):
            self.maxes[name] = v

    def sample(self, obj, limit=3):
        if len(self.samples) < limit:
            self.samples.append(obj)

    def drop(self, n=1):
        self.dropped += n

    def note(self, s):
        if len(self.notes) < 10:
            self.notes.append(s)

    def violation(self, sig, monitor, case, expected=None, observed=None, **extra):
        self.count('violations_raw')
        n = self._vsigs.get(sig, 0)
        self._vsigs[sig] = n + 1
        if n >= self.PER_SIG or len(self.violations) >= self.MAX_VIOL:
            return
        v = dict(sig=sig, monitor=monitor, case=case, expected=_short(expected), observed=_short(observed))
        v.update(extra)
        self.violations.append(v)

    def mine(self, index):
        """Static sharding of an enumerated case list."""
        return index % self.nshards == self.shard

    def out_of_time(self):
        return self.deadline is not None and time.time() > self.deadline

    def result(self):
        return dict(evaluations=self.evaluations, distinct_nontrivial=len(self._nontrivial),
                    counters=self.counters, maxes=self.maxes, samples=self.samples,
                    violations=self.violations, dropped=self.dropped, notes=self.notes,
                    wall=time.time() - self.t0)


def _short(o, n=1200):
    if o is None:
        return None
    s = o if isinstance(o, str) else repr(o)
    return s if len(s) <= n else s[:n] + '...'


def main():
    prop, tier, seed, shard, nshards, out = sys.argv[1:7]
    extra = sys.argv[7] if len(sys.argv) > 7 else None
    seed, shard, nshards = int(seed), int(shard), int(nshards)
    mem = int(os.environ.get('VERIF_MEM_GB', '4')) << 30
    try:
        resource.setrlimit(resource.RLIMIT_AS, (mem, mem))
    except Exception:
        pass
    sys.setrecursionlimit(12000)
    threading.stack_size(256 << 20)
    faulthandler.enable()
    warnings.simplefilter('ignore')
    rec = Recorder(prop, tier, seed, shard, nshards)
    result = {}
    cov = None
    if os.environ.get('VERIF_COV'):
        # developer aid: line/branch coverage of the generator under the workloads (finds constructs
        # no workload produces); never part of a verdict
        import coverage
        repo = os.environ.get('VERIF_REPO', '/repo')
        cov = coverage.Coverage(data_file=os.path.join(os.environ['VERIF_COV'], '.coverage.%s.%d' % (prop, shard)),
                                source=[os.path.join(repo, 'sourcer')], branch=True)
        cov.start()

    def body():
        nonlocal result
        try:
            mod = importlib.import_module('vlib.checks.' + prop.lower())
            if extra and extra.startswith('replay='):
                with open(extra[len('replay='):]) as f:
                    rep = json.load(f)
                mod.replay(rec, rep)
            else:
                mod.run_shard(rec)
            result = rec.result()
        except BaseException as e:
            result = rec.result()
            result['error'] = '%s: %s\n%s' % (type(e).__name__, e, traceback.format_exc()[-3000:])

    # run in a thread with a big stack so that the recursive reference model and
    # normaliser are not the limiting factor
    if os.environ.get('VERIF_WORKER_MAINTHREAD', '1') == '1':
        body()
    else:
        t = threading.Thread(target=body)
        t.start()
        t.join()
    if cov is not None:
        cov.stop()
        cov.save()
    with open(out, 'w') as f:
        json.dump(result, f, default=repr)
    sys.exit(0 if 'error' not in result else 3)


if __name__ == '__main__':
    main()
