"""Workload helpers shared by the differential checks."""
import time

from . import gast, gen, diff, tracer

_inputs_cache = {}


def inputs_for(alpha, maxlen, bytes_mode=False):
    key = (alpha, maxlen, bytes_mode)
    if key not in _inputs_cache:
        ins = list(gen.all_strings(alpha, maxlen))
        if bytes_mode:
            ins = [s.encode() for s in ins]
        _inputs_cache[key] = ins
    return _inputs_cache[key]


def alphabet_for(x, bytes_mode, base='ab'):
    has_i = any(n[0] in ('istr', 'bistr') or (n[0] in ('re', 'bre') and n[2]) for n in gast.walk(x))
    if not has_i:
        return base
    return base + ('B' if bytes_mode else 'A')


def rule_entries(G):
    out = [None]
    for s in G['stmts']:
        if s[0] in ('rule', 'class') and s[2] is None:
            out.append(s[1])
        elif s[0] == 'irule':
            out.append(s[1])
    return out


def run_grammar(rec, G, inputs, tag, entries=(None,), trace=False, monitors=('value',),
                positions=(0,), fullparse=(True,), sigprefix='', on_result=None, style=gast.DEFAULT,
                nontrivial=None, late_ignore=True, trace_sigprefix='trace:'):
    """Compile G with the real sourcer, run every (input, entry, pos, fullparse)
    through model and code, compare.  Returns the Built object (already cleaned)
    or None."""
    b = diff.build(rec, G, include_source=trace, sigprefix=sigprefix, style=style)
    if b is None:
        return None
    rec.count('descriptions')
    tr = None
    if trace:
        tr = tracer.Traced(b.g)
        if not tr.ok:
            rec.count('trace_unavailable')
            tr = None
    desc = b.descs[-1]
    tag0 = tag[0] if isinstance(tag, tuple) else tag
    for text in inputs:
        for entry in entries:
            for pos in positions:
                if pos > len(text):
                    continue
                for fp in fullparse:
                    r = diff.compare(rec, b, text, entry, pos, fp, monitor='E1', monitors=monitors,
                                     sigprefix=sigprefix, extra_case=dict(tag=str(tag)),
                                     late_ignore=late_ignore)
                    if r is None:
                        continue
                    exp, o, model = r
                    nt = model.undo if nontrivial is None else nontrivial(exp, o, model)
                    if nt:
                        rec.nontrivial((desc, text, entry, pos, fp))
                        rec.count('undo_events', model.undo)
                        rec.count('nontrivial:%s' % tag0)
                    if on_result is not None:
                        on_result(b, text, entry, pos, fp, exp, o, model)
                    if tr is not None and pos == 0 and fp:
                        viol = tr.run(text, entry, o.outcome)
                        rec.count('trace_events', tr.last_events)
                        if viol == 'mismatch':
                            rec.count('trace_discarded')
                        elif viol:
                            for v in viol[:3]:
                                rec.violation('%s%s' % (trace_sigprefix, v[0]), 'M-trace PEG trace specification',
                                              diff.case_dict(b, text, entry, 0, True, tag=str(tag), trace=True),
                                              'trace rule %s' % v[0], v)
    if tr is not None:
        rec.count('ignored_rule_runs_checked', 0)
    rec.sample(dict(description=desc, inputs=len(inputs), tag=str(tag)), limit=2)
    b.cleanup()
    return b


def replay_trace(rec, case):
    import ast as _ast
    b = diff.rebuild_from_case(rec, case, include_source=True)
    if b is None:
        return
    text = _ast.literal_eval(case['text_repr'])
    o = diff.observe.observe(b.g, text, case.get('entry'))
    tr = tracer.Traced(b.g)
    viol = tr.run(text, case.get('entry'), o.outcome)
    if viol and viol != 'mismatch':
        for v in viol[:3]:
            rec.violation('trace:%s' % v[0], 'M-trace', case, 'trace rule', v)
    b.cleanup()


def generic_replay(rec, rep, monitors=('value',)):
    case = rep['case']
    if case.get('trace'):
        return replay_trace(rec, case)
    return diff.replay_diff(rec, case, monitors=monitors)


def grammar_alphabet(grammars, extra=''):
    """Characters that can matter for a grammar: those of its string literals plus
    every printable character one of its regexes can start a match with."""
    import re
    import string
    if isinstance(grammars, dict):
        grammars = [grammars]
    chars = []

    def add(c):
        if c not in chars:
            chars.append(c)

    for G in grammars:
        for top in gast.grammar_exprs(G):
            for e in gast.walk(top):
                k = e[0]
                if k in ('str', 'istr'):
                    for c in e[1]:
                        add(c)
                        if k == 'istr':
                            add(c.swapcase())
                elif k in ('bstr', 'bistr'):
                    for c in e[1].decode('latin-1'):
                        add(c)
                elif k == 'byte':
                    add(chr(e[1]))
                elif k in ('re', 'bre'):
                    try:
                        rx = re.compile(e[1], re.I if e[2] else 0)
                    except re.error:
                        continue
                    for c in string.printable[:95]:
                        m = rx.match(c)
                        if m and m.end() > 0:
                            add(c)
    for c in extra:
        add(c)
    return ''.join(chars)


def guided_inputs(rng, chain, alphabet, rounds=300, entry=None, keep=150, maxlen=14, seeds=('',),
                  exhaustive_len=None):
    """Model-guided input search: all short strings over the alphabet, then
    mutation of strings on which the reference model got further (accepted, or
    longer consumed prefix).  Returns distinct inputs mixing accepted, partially
    accepted and rejected strings.  (Only the *model* guides the search; verdicts
    never depend on it.)"""
    from . import refpeg

    def score(t):
        try:
            out, m = refpeg.expected(chain, t, entry, 0, True, budget=20000)
        except (refpeg.IllFormed, refpeg.ModelBudget, RecursionError):
            return None
        except Exception:
            return None
        if out[0] == 'value':
            return (2, len(t))
        if out[0] == 'partial':
            return (1, out[2])
        return (0, m.M)

    if exhaustive_len is None:
        exhaustive_len = 3 if len(alphabet) <= 5 else (2 if len(alphabet) <= 12 else 1)
    pool = {}
    short = []
    for s in list(seeds) + list(gen.all_strings(alphabet, exhaustive_len)):
        if s in pool:
            continue
        sc = score(s)
        if sc is not None:
            pool[s] = sc
            short.append(s)
    rejected = []
    keys = [s for s in pool if pool[s][0] == 2 or pool[s][1] >= len(s)] or list(pool)
    for _ in range(rounds):
        if not keys:
            break
        t = rng.choice(keys)
        k = rng.randrange(4)
        i = rng.randint(0, len(t))
        c = rng.choice(alphabet)
        if k == 0 or not t:
            u = t[:i] + c + t[i:]
        elif k == 1:
            u = t[:i] + c + t[i + 1:]
        elif k == 2:
            u = t[:i] + t[i + 1:]
        else:
            u = t + c
        if u in pool or len(u) > maxlen:
            continue
        sc = score(u)
        if sc is None:
            continue
        pool[u] = sc
        # keep mutating only strings the model consumes completely or almost
        if sc[0] == 2 or sc[1] >= len(u) - 1:
            keys.append(u)
        elif len(rejected) < keep // 3:
            rejected.append(u)
    good = [s for s in pool if s not in short]
    good.sort(key=lambda s: (-pool[s][0], -pool[s][1], s))
    if len(short) > keep:
        short = rng.sample(short, keep)
    return short + good[:keep]
