"""Seeded generator of binding-heavy programs (C05, reused by C06/C08/C10/C20).

Every binding site produces a distinguishable value and every read site tags
what it saw, so a result identifies the binding it observed.

Tracked environment: name -> type ('int' for names usable as counts, 'any').
`nested_shadow=False` (default) never re-binds a name inside the scope of the
same name (sibling scopes may reuse names); with True it does, which exercises
the shadow-overwrite mechanism recorded as a known finding."""
from . import gast

TOK = ('re', '[ab]', False)
DIG = ('apply', ('re', '[0-3]', False), ('py', 'int'))


class ProgGen:
    def __init__(self, rng, nested_shadow=False, use_classes=True, use_templates=True, maxdepth=4):
        self.rng = rng
        self.nested_shadow = nested_shadow
        self.use_classes = use_classes
        self.use_templates = use_templates
        self.maxdepth = maxdepth
        self.site = 0
        self.stmts = []
        self.templates = []          # (name, params, kinds)
        self.classes = []
        self.fresh = 0

    def new_site(self):
        self.site += 1
        return self.site

    def name_for_let(self, env):
        pool = ['x', 'y', 'z', 'n']
        if self.nested_shadow and env and self.rng.random() < 0.6:
            return self.rng.choice(sorted(env))
        free = [n for n in pool if n not in env]
        if free:
            return self.rng.choice(free)
        self.fresh += 1
        return 'v%d' % self.fresh

    def read(self, env):
        """Inline Python reading 1-2 bound names, tagged with the site."""
        names = sorted(env)
        k = self.rng.sample(names, min(len(names), self.rng.choice([1, 1, 2])))
        return ('py', "('r%d', %s)" % (self.new_site(), ', '.join(k)))

    def tok(self):
        r = self.rng
        return r.choice([TOK, ('str', 'a'), ('str', 'b'), ('re', '[ab]', False), ('str', 'ab'),
                         ('re', '[a-b]+', False)])

    def binder(self, env):
        """Expression whose value is bound by a let / field: (expr, type)."""
        r = self.rng
        c = r.random()
        if c < 0.25:
            return DIG, 'int'
        if c < 0.55:
            return self.tok(), 'any'
        if c < 0.7:
            s = self.new_site()
            return ('apply', self.tok(), ('py', "lambda v: ('b%d', v)" % s)), 'any'
        if c < 0.8 and env:
            return self.read(env), 'any'
        if c < 0.9:
            return ('star', ('str', 'a')), 'any'
        return ('opt', ('str', 'b')), 'any'

    def expr(self, env, depth):
        """Returns expr.  env: dict name->type (not mutated)."""
        r = self.rng
        if depth <= 0:
            if env and r.random() < 0.5:
                return self.read(env)
            return self.tok()
        forms = ['tok', 'seq', 'seq', 'alt', 'let', 'let', 'opt', 'star', 'apply']
        if env:
            forms += ['read', 'read', 'where', 'lapply', 'count', 'expect']
        if self.templates and self.use_templates:
            forms += ['call', 'call']
        if self.classes:
            forms += ['classref']
        f = r.choice(forms)
        d = depth - 1
        if f == 'tok':
            return self.tok()
        if f == 'read':
            return self.read(env)
        if f == 'seq':
            return ('seq', [self.expr(env, d) for _ in range(r.randint(2, 3))])
        if f == 'alt':
            # first alternatives bind, consume, then fail on a marker; the last one re-binds
            n = r.randint(2, 3)
            items = []
            for i in range(n):
                x = self.expr(env, d)
                if i < n - 1 and r.random() < 0.6:
                    x = ('seq', [x, ('str', '!')])
                items.append(x)
            return ('alt', items)
        if f == 'let':
            name = self.name_for_let(env)
            b, ty = self.binder(env)
            env2 = dict(env)
            env2[name] = ty
            return ('let', name, b, self.expr(env2, d))
        if f == 'opt':
            return ('opt', self.expr(env, d))
        if f == 'star':
            # repetition: body must consume
            return ('star', ('seq', [self.tok(), self.expr(env, d)]))
        if f == 'apply':
            s = self.new_site()
            names = sorted(env)
            extra = (', ' + r.choice(names)) if names and r.random() < 0.7 else ''
            return ('apply', self.expr(env, d), ('py', "lambda v: ('a%d', v%s)" % (s, extra)))
        if f == 'lapply':
            s = self.new_site()
            nm = r.choice(sorted(env))
            return ('lapply', ('py', "lambda v: ('l%d', v, %s)" % (s, nm)), self.expr(env, d))
        if f == 'where':
            nm = r.choice(sorted(env))
            if env[nm] == 'int':
                pred = r.choice(["lambda v: len(v) >= %s", "lambda v: len(v) - %s", "lambda v: (len(v) + %s) %% 4"]) % nm
                return ('where', ('re', '[ab]*', False), ('py', pred))
            pred = "lambda v: (v == 'a') == (str(%s)[-3:-2] in ('a', ''))" % nm
            return ('where', TOK, ('py', pred))
        if f == 'count':
            ints = [n for n, t in env.items() if t == 'int']
            if not ints:
                return self.read(env)
            nm = r.choice(sorted(ints))
            kind = r.choice(['n', '_n', 'py'])
            if kind == 'n':
                return ('rep', ('str', 'a'), ('name', nm), ('name', nm))
            if kind == '_n':
                return ('rep', ('str', 'a'), None, ('name', nm))
            return ('rep', ('str', 'b'), ('py', nm), ('py', '%s + 1' % nm))
        if f == 'expect':
            inner = self.expr(env, d)
            if inner[0] in ('py', 'num'):
                inner = ('seq', [inner])       # Expect(`py`) would read the operand as an option value
            return ('seq', [('expect', inner), self.expr(env, d)])
        if f == 'call':
            tname, params, kinds = r.choice(self.templates)
            args = []
            for kd in kinds:
                if kd == 'value':
                    if env and r.random() < 0.7:
                        nm = r.choice(sorted(env))
                        args.append(r.choice([('ref', nm), ('py', nm)]))
                    else:
                        args.append(('py', repr(('k%d' % self.new_site()))))
                elif kd == 'int':
                    ints = [n for n, t in env.items() if t == 'int']
                    if ints and r.random() < 0.7:
                        nm = r.choice(sorted(ints))
                        args.append(r.choice([('ref', nm), ('py', nm)]))
                    else:
                        args.append(('num', str(r.randint(0, 2))))
                else:       # parser
                    args.append(r.choice([('str', 'a'), TOK, ('ref', 'Tok'), ('alt', [('str', 'a'), ('str', 'b')])]))
            return ('call', tname, args)
        if f == 'classref':
            return ('ref', r.choice(self.classes))
        raise ValueError(f)

    # -- statements -------------------------------------------------------
    def make_template(self, idx):
        r = self.rng
        name = 'T%d' % idx
        nparams = r.randint(1, 2)
        params, kinds, env = [], [], {}
        for i in range(nparams):
            kd = r.choice(['value', 'int', 'parser'])
            p = 'p%d' % i if kd != 'int' else 'k%d' % i
            params.append(p)
            kinds.append(kd)
            if kd == 'value':
                env[p] = 'any'
            elif kd == 'int':
                env[p] = 'int'
        body_items = []
        for p, kd in zip(params, kinds):
            if kd == 'parser':
                body_items.append(('ref', p))
        body_items.append(self.expr(env, r.randint(1, 2)) if env else self.tok())
        r.shuffle(body_items)
        body = ('seq', body_items)
        self.stmts.append(('rule', name, params, body))
        self.templates.append((name, params, kinds))

    def make_class(self, idx, recursive):
        r = self.rng
        name = 'C%d' % idx
        members = []
        env = {}
        nf = r.randint(1, 4)
        for i in range(nf):
            kind = r.choice(['field', 'field', 'let', 'pass', 'requires'])
            if kind == 'requires':
                ints = [n for n, t in env.items() if t == 'int']
                if ints:
                    members.append(('requires', '%s < 3' % r.choice(sorted(ints))))
                continue
            if kind == 'pass':
                members.append(('pass', r.choice([('opt', ('str', ',')), ('str', ':'), self.expr(env, 1)])))
                continue
            fname = '%s%d' % ('f' if kind == 'field' else 'h', i)
            c = r.random()
            if c < 0.3:
                ex, ty = DIG, 'int'
            elif c < 0.7 or not env:
                ex, ty = self.expr(env, r.randint(0, 2)), 'any'
            else:
                ex, ty = self.read(env), 'any'
            members.append((kind, fname, ex))
            env[fname] = ty
        if recursive:
            members.append(('field', 'kids', ('opt', ('right', ('str', '('), ('left', ('star', ('ref', name)), ('str', ')'))))))
            if env:
                members.append(('field', 'echo', self.read(env)))
        if not any(m[0] == 'field' for m in members):
            members.append(('field', 'g', self.tok()))
        self.stmts.append(('class', name, None, members))
        self.classes.append(name)

    def grammar(self):
        r = self.rng
        self.stmts = [('rule', 'Tok', None, TOK)]
        ntemp = r.randint(0, 2) if self.use_templates else 0
        for i in range(ntemp):
            self.make_template(i)
        ncls = r.randint(0, 2) if self.use_classes else 0
        for i in range(ncls):
            self.make_class(i, recursive=r.random() < 0.4)
        # a recursive rule that binds the same name at each level and reads it after the
        # recursive invocation returned
        if r.random() < 0.5:
            s1, s2 = self.new_site(), self.new_site()
            self.stmts.append(('rule', 'Nest', None,
                               ('let', 'x', TOK,
                                ('seq', [('py', "('r%d', x)" % s1),
                                         ('opt', ('right', ('str', '('), ('left', ('ref', 'Nest'), ('str', ')')))),
                                         ('py', "('r%d', x)" % s2)]))))
            nest = True
        else:
            nest = False
        body = self.expr({}, r.randint(2, self.maxdepth))
        if nest and r.random() < 0.7:
            body = ('seq', [body, ('opt', ('ref', 'Nest'))])
        self.stmts.insert(0, ('rule', 'start', None, body))
        return dict(name=None, extends=None, stmts=self.stmts)


def has_nested_shadow(G):
    """True when some let / class member re-binds a name that is bound in an
    enclosing scope of the same rule (params, enclosing lets, earlier members)."""
    def scan(e, bound):
        k = e[0]
        if k == 'let':
            if e[1] in bound:
                return True
            return scan(e[2], bound) or scan(e[3], bound | {e[1]})
        return any(scan(c, bound) for c in gast.children(e))

    for s in G['stmts']:
        if s[0] == 'rule':
            if scan(s[3], set(s[2] or ())):
                return True
        elif s[0] == 'class':
            bound = set(s[2] or ())
            for m in s[3]:
                if m[0] in ('field', 'let'):
                    if scan(m[2], bound):
                        return True
                    bound = bound | {m[1]}
                elif m[0] == 'pass':
                    if scan(m[1], bound):
                        return True
    return False
