"""M-trace: harness-side instrumentation of the emitted source and an online
checker of the PEG trace specification.

The generator brackets every compiled expression with `# Begin <Class>` /
`# End <Class>` comments.  We rewrite exactly those comment lines of
g._source_code into calls `_vt(kind, cls, line, _pos, _status)` and execute the
result as a separate module.  The un-instrumented module is run on the same case
and both outcomes must agree, otherwise the trace is discarded (inconclusive)."""
import re
import types

from . import observe

PAT = re.compile(r'^(\s*)# (Begin|End) ([A-Za-z]+)$')
RULE = re.compile(r"^(\s*)# Rule '([A-Za-z_0-9]+)'$")


def instrument(src):
    out = []
    n = 0
    for i, line in enumerate(src.split('\n'), 1):
        m = PAT.match(line)
        if m:
            ind, kind, cls = m.groups()
            n += 1
            if kind == 'Begin':
                out.append('%s_vt(1, %r, %d, _pos, None)' % (ind, cls, i))
            else:
                out.append('%s_vt(0, %r, %d, _pos, _status)' % (ind, cls, i))
            continue
        m = RULE.match(line)
        if m:
            out.append('%s_vt(2, %r, %d, _pos, None)' % (m.group(1), m.group(2), i))
            continue
        out.append(line)
    return '\n'.join(out), n


class Node:
    __slots__ = ('cls', 'line', 'p0', 'p1', 'st', 'kids', 'parent', 'rule')

    def __init__(self, cls, line, p0, parent):
        self.cls, self.line, self.p0, self.parent = cls, line, p0, parent
        self.kids = []
        self.p1 = None
        self.st = None
        self.rule = None


LITERALS = ('Str', 'Regex', 'Byte')


class Checker:
    def __init__(self, start_rules=('start', 'Start'), start_rule=None):
        self.reset()
        self.start_rules = start_rules
        # the rule the module-level parse starts with, read off the emitted `def parse` (a grammar
        # without a rule called start begins with its first rule)
        self.start_rule = start_rule
        self.ignore_checks = True

    def reset(self):
        self.cur = Node('ROOT', 0, 0, None)
        self.viol = []
        self.events = 0
        self.by_class = {}
        self.pending_rule = None
        self.ignored_runs = 0

    def __call__(self, kind, cls, line, pos, status):
        self.events += 1
        if kind == 2:
            self.pending_rule = (cls, line, pos)
            return
        if kind:
            n = Node(cls, line, pos, self.cur)
            pr = self.pending_rule
            if pr is not None:
                if pr[1] + 1 == line and pr[2] == pos:
                    n.rule = pr[0]
                self.pending_rule = None
            self.cur.kids.append(n)
            self.cur = n
            if n.rule == '_ignored':
                self.check_ignored_site(n)
        else:
            self.pending_rule = None
            n = self.cur
            if n.cls != cls or n.parent is None:
                self.viol.append(('nesting', cls, line, n.cls, n.line))
                return
            n.p1, n.st = pos, status
            self.check(n)
            self.cur = n.parent
            for k in n.kids:
                k.kids = ()

    def bad(self, rule, n, *info):
        if len(self.viol) < 20:
            self.viol.append((rule, n.cls, n.line, n.p0, n.p1, n.st) + info)

    def check_ignored_site(self, n):
        """C04: the _ignored rule body runs only directly inside a literal block,
        or as the leading reference injected into the start rule."""
        self.ignored_runs += 1
        p = n.parent
        if p.cls in LITERALS:
            return
        if p.cls == 'Ref' and p.parent is not None and p.parent.cls == 'Discard' and p.parent.kids[0] is p:
            d = p.parent
            if d.rule is not None and (d.rule.lower() == 'start' or d.rule == self.start_rule):
                return      # start = <leading skip> >> expr
            if d.parent is not None and d.parent.cls == 'Seq' and d.parent.kids[0] is d:
                return      # first member of a start class
        if p.cls == 'Ref' and p.parent is not None and p.parent.cls == 'Skip' and p.parent.rule == '_ignored':
            return      # a derived grammar's _ignored delegating to its parent's
        if p.cls == 'ROOT':
            return      # _ignored used directly as an entry point by the harness
        self.bad('ignored-run-outside-literal', n, p.cls, p.line)

    def check(self, n):
        c = n.cls
        kids = n.kids
        self.by_class[c] = self.by_class.get(c, 0) + 1
        if c == 'Choice':
            for k in kids:
                if k.p0 != n.p0:
                    self.bad('choice-option-start', n, k.cls, k.line, k.p0)
            for k in kids[:-1]:
                if k.st:
                    self.bad('choice-after-success', n, k.cls, k.line)
            if kids and kids[-1].st and (n.st is not True or n.p1 != kids[-1].p1):
                self.bad('choice-exit', n)
        elif c == 'Longest':
            for k in kids:
                if k.p0 != n.p0:
                    self.bad('longest-option-start', n, k.cls, k.line, k.p0)
            succ = [k for k in kids if k.st]
            if succ:
                best = max(k.p1 for k in succ)
                if not n.st or n.p1 != best:
                    self.bad('longest-exit', n, best)
        elif c == 'Opt':
            if len(kids) != 1:
                return
            k = kids[0]
            if k.p0 != n.p0:
                self.bad('opt-start', n)
            if not k.st and (n.st is not True or n.p1 != n.p0):
                self.bad('opt-restore', n)
            if k.st and (n.p1 != k.p1 or not n.st):
                self.bad('opt-exit', n)
        elif c == 'List':
            q = n.p0
            for i, k in enumerate(kids):
                if k.p0 != q:
                    self.bad('list-iter-start', n, i, k.p0, q)
                if k.st:
                    q = k.p1
                elif i != len(kids) - 1:
                    self.bad('list-continue-after-fail', n, i)
            if n.st and n.p1 != q:
                self.bad('list-exit', n, q)
        elif c == 'Sep':
            q = n.p0
            ends = [n.p0]
            for i, k in enumerate(kids):
                if k.p0 != q:
                    self.bad('sep-attempt-start', n, i, k.p0, q)
                if k.st:
                    q = k.p1
                    ends.append(q)
                elif i != len(kids) - 1:
                    self.bad('sep-continue-after-fail', n, i)
            if n.st and n.p1 not in ends[-2:]:
                self.bad('sep-exit', n, tuple(ends[-2:]))
        elif c == 'Expect':
            if n.st and n.p1 != n.p0:
                self.bad('expect-pos', n)
            if kids and bool(kids[0].st) != bool(n.st):
                self.bad('expect-status', n)
        elif c == 'ExpectNot':
            if n.p1 != n.p0:
                self.bad('expectnot-pos', n)
            if kids and bool(kids[0].st) == bool(n.st):
                self.bad('expectnot-status', n)
        elif c == 'Skip':
            q = n.p0
            for i, k in enumerate(kids):
                if k.p0 != q:
                    self.bad('skip-attempt-start', n, i, k.p0, q)
                if k.st:
                    q = k.p1
            if n.st is not True or n.p1 != q:
                self.bad('skip-exit', n, q)
        elif c in ('Seq', 'Discard', 'Apply', 'Where', 'Let'):
            q = n.p0
            for i, k in enumerate(kids):
                if k.p0 != q:
                    self.bad('seq-child-start', n, i, k.cls, k.p0, q)
                if not k.st:
                    if i != len(kids) - 1:
                        self.bad('seq-continue-after-fail', n, i)
                    if n.st:
                        self.bad('seq-success-after-fail', n, i)
                    break
                q = k.p1
            else:
                if n.st and n.p1 != q:
                    self.bad('seq-exit', n, q)
        elif c in LITERALS:
            if not n.st and n.p1 != n.p0:
                self.bad('literal-fail-moved', n)
            if n.st and n.p1 < n.p0:
                self.bad('literal-backwards', n)


class Traced:
    """Instrumented twin of an emitted module compiled with include_source=True."""

    def __init__(self, g, exec_globals=None):
        self.ok = False
        self.last_events = 0
        src = getattr(g, '_source_code', None)
        if not src:
            return
        isrc, n = instrument(src)
        if n == 0:
            return
        sm = re.search(r'^def parse\(text, pos=0, fullparse=True\):\n    return _run\((?:_ctx, )?text, pos, (?:_ctx\.)?_try_(\w+), fullparse\)',
                       src, re.M)
        self.ck = Checker(start_rule=sm.group(1) if sm else None)
        m = types.ModuleType('vt_traced')
        m.__dict__['_vt'] = self.ck
        if exec_globals:
            m.__dict__.update(exec_globals)
        try:
            exec(compile(isrc, '<vt_traced>', 'exec'), m.__dict__)
        except Exception:
            return
        self.m = m
        self.ok = True

    def run(self, text, entry=None, outcome=None, pos=0, fullparse=True):
        """Returns [] | list of violations | 'mismatch' (trace discarded)."""
        self.ck.reset()
        o = observe.observe(self.m, text, entry, pos, fullparse)
        self.last_events = self.ck.events
        if outcome is not None and o.outcome != outcome:
            return 'mismatch'
        if self.ck.cur.parent is not None and o.outcome[0] in ('value', 'partial', 'error'):
            # an unfinished Begin is legitimate only when an exception escaped
            pass
        return list(self.ck.viol)
