"""Model-free boundary monitors on recorded outcomes:

check_error  -- C09: index range, line/column of the index, message/caret shape
check_spans  -- C10: position_info well-formedness and structural invariants
"""
import re

from .observe import is_parsed_object

_CARET = re.compile(r'^ *\^$')


def line_col(text, i):
    nl = b'\n' if isinstance(text, (bytes, bytearray)) else '\n'
    if isinstance(text, (bytes, bytearray)):
        # bytes input is a single line for sourcer (it compares ints with '\n')
        return 1, i + 1
    line = 1 + text.count(nl, 0, i)
    col = i - (text.rfind(nl, 0, i) + 1) + 1
    return line, col


def check_error(g, text, pos, exc, M=None, lookbehind=False):
    """Returns a list of (kind, expected, observed)."""
    out = []
    is_partial = isinstance(exc, g.PartialParseError)
    try:
        p = exc.last_position if is_partial else exc.position
        index, line, column = p.index, p.line, p.column
    except Exception as e:
        return [('malformed-position', 'index/line/column', repr(e))]
    n = len(text)
    if not isinstance(index, int) or isinstance(index, bool):
        return [('index-type', 'int', repr(index))]
    if not lookbehind and not (pos <= index <= n):
        out.append(('index-range', '[%d, %d]' % (pos, n), index))
    if lookbehind and not (0 <= index <= n):
        out.append(('index-range', '[0, %d]' % n, index))
    if M is not None and not lookbehind and index > max(M, pos):
        out.append(('index-beyond-farthest-match', '<= %d' % max(M, pos), index))
    if is_partial and index >= n:
        out.append(('partial-at-end', '< %d' % n, index))
    msg = str(exc)
    is_bytes = isinstance(text, (bytes, bytearray))
    at_end = index >= n
    if at_end:
        if not is_partial:
            if line is not None or column is not None:
                out.append(('line-col-at-end', (None, None), (line, column)))
            if not msg.startswith('Unexpected end of input.'):
                out.append(('message-at-end', 'Unexpected end of input.', msg[:60]))
        return out
    if index < 0:
        return out
    on_newline = (not is_bytes) and text[index] == '\n'
    if line is None or column is None:
        out.append(('line-col-missing', 'line and column', (line, column)))
        return out
    if not on_newline:
        want = line_col(text, index)
        if (line, column) != want:
            out.append(('line-col', want, (line, column)))
    # message
    lines = msg.split('\n')
    if is_partial:
        head = 'Incomplete parse. Unexpected input on line %s, column %s:' % (line, column)
    else:
        head = 'Error on line %s, column %s:' % (line, column)
    if lines[0] != head:
        out.append(('message-head', head, lines[0][:120]))
        return out
    if is_bytes:
        want = repr(text[max(0, index - 1):index + 2])
        if len(lines) < 2 or lines[1] != want:
            out.append(('bytes-excerpt', want, lines[1] if len(lines) > 1 else None))
        if len(lines) > 2 and _CARET.match(lines[2]):
            out.append(('bytes-caret', 'no caret', lines[2]))
        return out
    if on_newline:
        return out
    if len(lines) < 3:
        out.append(('message-shape', 'excerpt line and caret line', lines[1:]))
        return out
    ex, caret = lines[1], lines[2]
    if not _CARET.match(caret):
        out.append(('excerpt-spills-over-line-break', 'caret line after a one-line excerpt',
                    (ex[-30:], caret[:60])))
        return out
    c = len(caret) - 1
    if c >= len(ex) or ex[c] != text[index]:
        out.append(('caret-char', text[index], ex[c] if c < len(ex) else None))
        return out
    # neighbourhood: the excerpt shows the error's own line around the index
    lo = 4 if ex.startswith('... ') and len(ex) > 90 else 0
    hi = len(ex) - 4 if ex.endswith(' ...') and len(ex) > 90 else len(ex)
    ls = text.rfind('\n', 0, index) + 1
    le = text.find('\n', index)
    if le < 0:
        le = n
    for d in (-3, -2, -1, 1, 2, 3):
        ci, ti = c + d, index + d
        if lo <= ci < hi and ls <= ti < le:
            if ex[ci] != text[ti]:
                out.append(('caret-neighbourhood', text[ti], ex[ci]))
                break
    return out


# ---------------------------------------------------------------------------

def check_spans(g, text, value, structural=False):
    out = []
    seen = set()
    n = len(text)
    stack = [value]
    count = 0
    while stack:
        v = stack.pop()
        if isinstance(v, (list, tuple)):
            stack.extend(v)
            continue
        if isinstance(v, dict):
            stack.extend(v.values())
            continue
        if not is_parsed_object(v):
            continue
        if id(v) in seen:
            continue
        seen.add(id(v))
        for f in type(v)._fields:
            stack.append(getattr(v, f))
        pi = v._metadata.position_info
        if not pi:
            continue
        count += 1
        if not isinstance(pi, g._PositionInfo) or not isinstance(pi.start, g._Position) \
                or not isinstance(pi.end, g._Position):
            out.append(('unconverted-position-info', '_PositionInfo of _Position', repr(pi)[:100]))
            continue
        s, e = pi.start, pi.end
        if e.index < s.index:
            continue            # consumed nothing
        if not (0 <= s.index <= e.index < n):
            out.append(('span-range', '0 <= start <= end < %d' % n, (s.index, e.index)))
            continue
        for nm, p in (('start', s), ('end', e)):
            if isinstance(text, str) and text[p.index] == '\n':
                continue
            want = line_col(text, p.index)
            if (p.line, p.column) != want:
                out.append(('span-%s-line-col' % nm, want, (p.index, p.line, p.column)))
    if structural and not out:
        out.extend(_structure(value))
    return out


def _span(v):
    pi = v._metadata.position_info
    if not pi:
        return None
    try:
        s, e = pi.start.index, pi.end.index
    except AttributeError:
        return None
    return (s, e) if e >= s else None


def _structure(value):
    """Nesting and ordering of spans over distinct instances (recursive; the
    callers use it on shallow trees only)."""
    out = []
    seen = set()

    def cover(v):
        # list of spans, in order, of the outermost spanned instances inside v
        if isinstance(v, (list, tuple)):
            acc = []
            for x in v:
                acc.extend(cover(x))
            return acc
        if isinstance(v, dict):
            acc = []
            for x in v.values():
                acc.extend(cover(x))
            return acc
        if not is_parsed_object(v):
            return []
        if id(v) in seen:
            return []
        seen.add(id(v))
        inner = []
        for f in type(v)._fields:
            inner.extend(cover(getattr(v, f)))
        order(inner, type(v).__name__)
        sp = _span(v)
        if sp is None:
            return inner
        for c in inner:
            if c[0] < sp[0] or c[1] > sp[1]:
                out.append(('child-outside-parent', 'inside %s' % (sp,), c))
        return [sp]

    def order(spans, where):
        for a, b in zip(spans, spans[1:]):
            if not a[1] < b[0]:
                out.append(('siblings-overlap-or-out-of-order', 'disjoint, increasing', (a, b, where)))

    order(cover(value), 'root')
    return out
