"""Harness-side grammar AST and renderer to sourcer description text.

This AST is the harness's own (it shares nothing with sourcer.expressions).
Expressions are plain tuples so that they are cheap to build, hash and dump.

Expression nodes
    ('str', s)            "s"            (s: str)
    ('bstr', b)           b"s"           (b: bytes)
    ('istr', s)           "s"i
    ('bistr', b)          b"s"i
    ('re', pat, icase)    /pat/ or /pat/i
    ('bre', pat, icase)   b/pat/         (pat: str, ascii)
    ('byte', n)           0xNN
    ('ref', name)
    ('super', name)       super.name
    ('seq', [e...])       [a, b]
    ('right', a, b)       a >> b
    ('left', a, b)        a << b
    ('alt', [e...])       a | b
    ('opt', e)            e?
    ('star', e) ('plus', e)
    ('rep', e, m, n)      e{m,n}; m, n: None | int | ('name', x) | ('py', src)
    ('expect', e) ('expectnot', e)
    ('skip', [e...]) ('longest', [e...])
    ('backtrack', k) ('fail', msg_or_None)
    ('sep', e, s, opts)   opts: dict subset of discard_separators, allow_trailer,
                          allow_empty, require_separator; opts may carry
                          '_op': '//' or '/?' to request operator form
    ('py', src)           `src`
    ('num', text)         bare number / True / False / None  (a PythonExpression)
    ('let', name, e, body)
    ('where', e, pred) ('apply', a, f) ('lapply', f, a)
    ('call', name, [args])   args: expr or ('kw', name, expr)
    ('optable', operand, rows)  rows: [(kind, [op exprs])]

Grammar: dict(name=None|str, extends=None|str, stmts=[...])
    ('rule', name, params|None, expr)
    ('irule', name, expr)                 ignore Name = expr
    ('ignore', expr)                      ignore expr
    ('class', name, params|None, members) members: ('field', n, e) ('let', n, e)
                                          ('pass', e) ('requires', src)
    ('pysection', src) ('pyexpr', src)
    ('bare', expr)                        whole grammar is one expression
"""
import re

# precedence levels, smaller binds tighter
L_ATOM, L_POSTFIX, L_SEP, L_SHIFT, L_APPLY, L_ALT, L_TABLE, L_LET = 0, 2, 3, 4, 5, 6, 7, 9


class Style:
    """Spelling / layout choices. Defaults: operator forms, full parentheses."""

    def __init__(self, ctor=(), parens='full', defsym='=', stmt_sep='\n',
                 ignore_kw='ignore', comments=False, op_breaks=False,
                 indent='', class_sep='\n', start_bare=False, quote='"', trailing_comma=False,
                 bracket_breaks=False, override_kw=None, upper_flags=False):
        self.ctor = frozenset(ctor)      # node kinds rendered in constructor form
        self.parens = parens             # 'full' | 'min' | 'redundant'
        self.defsym = defsym             # '=' | ':' | '=>'
        self.stmt_sep = stmt_sep         # '\n' | ';' | '\n\n' ...
        self.ignore_kw = ignore_kw
        self.comments = comments
        self.op_breaks = op_breaks       # line breaks around binary operators
        self.indent = indent
        self.class_sep = class_sep
        self.start_bare = start_bare
        self.quote = quote
        self.trailing_comma = trailing_comma      # [a, b,]  T(a, b,)
        self.bracket_breaks = bracket_breaks      # line breaks after [ ( , and before ] )
        self.override_kw = override_kw            # None | 'override' | 'overrides' (rule statements)
        self.upper_flags = upper_flags            # B"s"  "s"I  B/pat/I  (grammar.txt: [bB]? ... [iI]?)


DEFAULT = Style()


def lit_str(s, quote='"'):
    """Python string literal text for s using the requested quote."""
    out = []
    for ch in s:
        o = ord(ch)
        if ch == '\\':
            out.append('\\\\')
        elif ch == quote:
            out.append('\\' + quote)
        elif ch == '\n':
            out.append('\\n')
        elif ch == '\r':
            out.append('\\r')
        elif ch == '\t':
            out.append('\\t')
        elif o < 32 or o == 127:
            out.append('\\x%02x' % o)
        elif o > 126:
            out.append('\\u%04x' % o if o < 0x10000 else '\\U%08x' % o)
        else:
            out.append(ch)
    return quote + ''.join(out) + quote


def lit_bytes(b, quote='"'):
    out = []
    for o in b:
        ch = chr(o)
        if ch == '\\':
            out.append('\\\\')
        elif ch == quote:
            out.append('\\' + quote)
        elif o < 32 or o > 126:
            out.append('\\x%02x' % o)
        else:
            out.append(ch)
    return 'b' + quote + ''.join(out) + quote


def lit_regex(pat):
    # '/' ends the literal; an escaped '\/' stays in the pattern and means '/'
    out = []
    i = 0
    while i < len(pat):
        ch = pat[i]
        if ch == '\\' and i + 1 < len(pat):
            out.append(pat[i:i + 2])
            i += 2
            continue
        if ch == '/':
            out.append('\\/')
        else:
            out.append(ch)
        i += 1
    return '/' + ''.join(out) + '/'


def level(e, st=DEFAULT):
    k = e[0]
    if k in st.ctor and k in _CTOR_OK and _ctor_applicable(e):
        return L_ATOM
    if k in ('str', 'bstr', 'istr', 'bistr', 're', 'bre', 'byte', 'ref', 'seq',
             'expect', 'expectnot', 'skip', 'longest', 'backtrack', 'fail',
             'py', 'num', 'call'):
        return L_ATOM
    if k == 'super':
        return L_ATOM
    if k in ('opt', 'star', 'plus', 'rep'):
        return L_POSTFIX
    if k == 'sep':
        return L_SEP if _sep_op(e) else L_ATOM
    if k in ('right', 'left'):
        return L_SHIFT
    if k in ('where', 'apply', 'lapply'):
        return L_APPLY
    if k == 'alt':
        return L_ALT if len(e[1]) > 1 else level(e[1][0], st)
    if k == 'optable':
        return L_TABLE
    if k == 'let':
        return L_LET
    raise ValueError('unknown node %r' % (k,))


_CTOR_OK = {'opt', 'star', 'plus', 'right', 'left', 'alt', 'seq', 'sep', 'rep'}


def _is_bare_py(e):
    return e[0] in ('py', 'num')


def _ctor_applicable(e):
    """Constructor forms read bare inline Python operands as option values."""
    k = e[0]
    if k in ('opt', 'star', 'plus'):
        return not _is_bare_py(e[1])
    if k in ('right', 'left'):
        return not _is_bare_py(e[1]) and not _is_bare_py(e[2])
    if k in ('alt', 'seq'):
        return len(e[1]) >= 1 and not any(_is_bare_py(x) for x in e[1])
    if k == 'sep':
        return not _is_bare_py(e[1]) and not _is_bare_py(e[2])
    if k == 'rep':
        if _is_bare_py(e[1]):
            return False
        # bounds must be plain ints (or absent) for List(e, min_len=.., max_len=..)
        return all(b is None or isinstance(b, int) for b in (e[2], e[3]))
    return False


def _sep_op(e):
    """Operator spelling of a Sep node, or None when only Sep(...) can say it."""
    o = e[3]
    want = o.get('_op')
    plain = {k: v for k, v in o.items() if k != '_op'}
    full = dict(discard_separators=True, allow_trailer=False, allow_empty=True,
                require_separator=False)
    full.update(plain)
    if want is None:
        return None
    if full['discard_separators'] and full['allow_empty'] and not full['require_separator']:
        return '/?' if full['allow_trailer'] else '//'
    return None


def _bound(b):
    if b is None:
        return ''
    if isinstance(b, bool):
        raise ValueError(b)
    if isinstance(b, int):
        return str(b)
    if b[0] == 'name':
        return b[1]
    if b[0] == 'py':
        return '`%s`' % b[1]
    raise ValueError(b)


def render(e, st=DEFAULT, top=True):
    """Render expression e.  `top` means no enclosing operator."""
    return _R(st).expr(e, L_LET if top else None)


class _R:
    def __init__(self, st):
        self.st = st

    def sub(self, e, maxlevel):
        """Render e as an operand that must bind at least as tight as maxlevel."""
        st = self.st
        txt = self.raw(e)
        lv = level(e, st)
        if st.parens == 'full':
            need = lv > L_ATOM
        elif st.parens == 'redundant':
            need = True
        else:
            need = lv > maxlevel
        if need:
            return '(' + txt + ')'
        return txt

    def expr(self, e, maxlevel):
        if maxlevel is None:
            return self.sub(e, L_ATOM)
        txt = self.raw(e)
        if self.st.parens == 'redundant':
            return '(' + txt + ')'
        return txt

    def args(self, items, extra=()):
        # arguments are full expressions; no parens needed in any mode, but the
        # 'redundant' style adds them.  `extra`: already rendered keyword options.
        out = []
        for x in items:
            if isinstance(x, tuple) and x and x[0] == 'kw':
                out.append('%s=%s' % (x[1], self.expr(x[2], L_LET)))
            else:
                out.append(self.expr(x, L_LET))
        out.extend(extra)
        if self.st.bracket_breaks and out:
            body = ',\n        '.join(out)
            if self.st.trailing_comma:
                body += ','
            return '\n        ' + body + '\n    '
        body = ', '.join(out)
        if self.st.trailing_comma and out:
            body += ','
        return body

    def binop(self, a, op, b, lv):
        st = self.st
        left = self.sub(a, lv)
        right = self.sub(b, lv - 1)      # left associative: same level on the right needs parens
        if st.op_breaks:
            return '%s\n    %s\n    %s' % (left, op, right)
        return '%s %s %s' % (left, op, right)

    def raw(self, e):
        st = self.st
        k = e[0]
        q = st.quote
        if k in st.ctor and k in _CTOR_OK and _ctor_applicable(e):
            return self.ctor(e)
        if k in ('str', 'bstr', 'istr', 'bistr', 're', 'bre'):
            i, b = ('I', 'B') if st.upper_flags else ('i', 'b')
            if k == 'str':
                return lit_str(e[1], q)
            if k == 'bstr':
                return b + lit_bytes(e[1], q)[1:]
            if k == 'istr':
                return lit_str(e[1], q) + i
            if k == 'bistr':
                return b + lit_bytes(e[1], q)[1:] + i
            if k == 're':
                return lit_regex(e[1]) + (i if e[2] else '')
            return b + lit_regex(e[1]) + (i if e[2] else '')
        if k == 'byte':
            return '0x%02X' % e[1]
        if k == 'ref':
            return e[1]
        if k == 'super':
            return 'super.' + e[1]
        if k == 'py':
            return '`%s`' % e[1]
        if k == 'num':
            return e[1]
        if k == 'seq':
            return '[' + self.args(e[1]) + ']'
        if k == 'right':
            return self.binop(e[1], '>>', e[2], L_SHIFT)
        if k == 'left':
            return self.binop(e[1], '<<', e[2], L_SHIFT)
        if k == 'where':
            return self.binop(e[1], 'where', e[2], L_APPLY)
        if k == 'apply':
            return self.binop(e[1], '|>', e[2], L_APPLY)
        if k == 'lapply':
            return self.binop(e[1], '<|', e[2], L_APPLY)
        if k == 'alt':
            if len(e[1]) == 1:
                return self.raw(e[1][0])
            parts = [self.sub(e[1][0], L_ALT)] + [self.sub(x, L_ALT - 1) for x in e[1][1:]]
            if st.op_breaks:
                return '\n    | '.join(parts)
            return ' | '.join(parts)
        if k == 'opt':
            return self.sub(e[1], L_POSTFIX) + '?'
        if k == 'star':
            return self.sub(e[1], L_POSTFIX) + '*'
        if k == 'plus':
            return self.sub(e[1], L_POSTFIX) + '+'
        if k == 'rep':
            m, n = e[2], e[3]
            if m is not None and m == n:
                b = '{%s}' % _bound(m)
            else:
                b = '{%s,%s}' % (_bound(m), _bound(n))
            return self.sub(e[1], L_POSTFIX) + b
        if k == 'expect':
            return 'Expect(%s)' % self.args([e[1]])
        if k == 'expectnot':
            return 'ExpectNot(%s)' % self.args([e[1]])
        if k == 'skip':
            return 'Skip(%s)' % self.args(e[1])
        if k == 'longest':
            return 'Longest(%s)' % self.args(e[1])
        if k == 'backtrack':
            return 'Backtrack(%d)' % e[1]
        if k == 'fail':
            return 'Fail()' if e[1] is None else 'Fail(%s)' % lit_str(e[1], q)
        if k == 'sep':
            op = _sep_op(e)
            if op:
                return self.binop(e[1], op, e[2], L_SEP)
            return self.ctor(e)
        if k == 'let':
            return 'let %s = %s in %s' % (e[1], self.expr(e[2], L_LET), self.expr(e[3], L_LET))
        if k == 'call':
            return '%s(%s)' % (e[1], self.args(e[2]))
        if k == 'optable':
            rows = []
            for kind, ops in e[2]:
                rows.append('    %s: %s' % (kind, ', '.join(self.expr(o, L_LET) for o in ops)))
            return '%s between {\n%s\n}' % (self.sub(e[1], L_TABLE), '\n'.join(rows))
        raise ValueError('unknown node %r' % (k,))

    def ctor(self, e):
        k = e[0]
        if k == 'opt':
            return 'Opt(%s)' % self.args([e[1]])
        if k == 'star':
            return 'List(%s)' % self.args([e[1]])
        if k == 'plus':
            return 'Some(%s)' % self.args([e[1]])
        if k == 'right':
            return 'Right(%s)' % self.args([e[1], e[2]])
        if k == 'left':
            return 'Left(%s)' % self.args([e[1], e[2]])
        if k == 'alt':
            return 'Choice(%s)' % self.args(e[1])
        if k == 'seq':
            return 'Seq(%s)' % self.args(e[1])
        if k == 'rep':
            kw = []
            if e[2] is not None:
                kw.append('min_len=%d' % e[2])
            if e[3] is not None:
                kw.append('max_len=%d' % e[3])
            return 'List(%s)' % self.args([e[1]], kw)
        if k == 'sep':
            o = {kk: v for kk, v in e[3].items() if kk != '_op'}
            kw = ['%s=%s' % (kk, o[kk]) for kk in
                  ('discard_separators', 'allow_trailer', 'allow_empty', 'require_separator')
                  if kk in o]
            return 'Sep(%s)' % self.args([e[1], e[2]], kw)
        raise ValueError(k)


def render_stmt(s, st=DEFAULT):
    r = _R(st)
    k = s[0]
    ind = st.indent
    if k == 'rule':
        _, name, params, body = s
        ps = '' if params is None else '(%s)' % ', '.join(params)
        if st.start_bare and name == 'start' and params is None:
            return ind + r.expr(body, L_LET)
        okw = (st.override_kw + ' ') if st.override_kw else ''
        return '%s%s%s%s %s %s' % (ind, okw, name, ps, st.defsym, r.expr(body, L_LET))
    if k == 'irule':
        return '%s%s %s %s %s' % (ind, st.ignore_kw, s[1], st.defsym, r.expr(s[2], L_LET))
    if k == 'ignore':
        return '%s%s %s' % (ind, st.ignore_kw, r.expr(s[1], L_LET))
    if k == 'class':
        _, name, params, members = s
        ps = '' if params is None else '(%s)' % ', '.join(params)
        lines = []
        for m in members:
            if m[0] == 'field':
                lines.append('%s %s %s' % (m[1], ':' if st.defsym == '=' else st.defsym,
                                           r.expr(m[2], L_LET)))
            elif m[0] == 'let':
                lines.append('let %s %s %s' % (m[1], ':' if st.defsym == '=' else st.defsym,
                                               r.expr(m[2], L_LET)))
            elif m[0] == 'pass':
                lines.append('pass %s' % r.expr(m[1], L_LET))
            elif m[0] == 'requires':
                lines.append('requires `%s`' % m[1])
            else:
                raise ValueError(m)
        sep = st.class_sep
        if sep == '\n':
            body = ''.join('%s    %s\n' % (ind, ln) for ln in lines)
            return '%sclass %s%s {\n%s%s}' % (ind, name, ps, body, ind)
        return '%sclass %s%s { %s }' % (ind, name, ps, sep.join(lines))
    if k == 'pysection':
        return '```\n%s\n```' % s[1]
    if k == 'pyexpr':
        return '%s`%s`' % (ind, s[1])
    if k == 'bare':
        return ind + r.expr(s[1], L_LET)
    raise ValueError(s)


def render_grammar(G, st=DEFAULT):
    parts = []
    if G.get('name'):
        head = 'grammar %s' % G['name']
        if G.get('extends'):
            head += ' extends %s' % G['extends']
        parts.append(head)
    stmts = [render_stmt(s, st) for s in G['stmts']]
    if st.comments:
        out = []
        for i, t in enumerate(stmts):
            out.append('%s# comment %d' % (st.indent, i))
            out.append(t + '  # trailing')
            out.append('')
        stmts = out
        body = '\n'.join(stmts)
    else:
        body = st.stmt_sep.join(stmts)
    if parts:
        return parts[0] + '\n' + body + '\n'
    return body + ('\n' if not st.stmt_sep.startswith(';') else '')


# ---------------------------------------------------------------------------
# generic helpers over expressions

CHILD_SLOTS = {
    'seq': 'list1', 'alt': 'list1', 'skip': 'list1', 'longest': 'list1',
    'right': (1, 2), 'left': (1, 2), 'where': (1, 2), 'apply': (1, 2), 'lapply': (1, 2),
    'opt': (1,), 'star': (1,), 'plus': (1,), 'rep': (1,), 'expect': (1,), 'expectnot': (1,),
    'sep': (1, 2), 'let': (2, 3),
}


def children(e):
    k = e[0]
    slots = CHILD_SLOTS.get(k)
    if slots == 'list1':
        return list(e[1])
    if slots:
        return [e[i] for i in slots]
    if k == 'call':
        return [a[2] if (isinstance(a, tuple) and a and a[0] == 'kw') else a for a in e[2]]
    if k == 'optable':
        out = [e[1]]
        for _, ops in e[2]:
            out.extend(ops)
        return out
    return []


def walk(e):
    stack = [e]
    while stack:
        x = stack.pop()
        yield x
        stack.extend(reversed(children(x)))


def grammar_exprs(G):
    """All top-level expressions of a grammar (rule bodies, members, ignores)."""
    for s in G['stmts']:
        k = s[0]
        if k == 'rule':
            yield s[3]
        elif k == 'irule':
            yield s[2]
        elif k in ('ignore', 'bare'):
            yield s[1]
        elif k == 'class':
            for m in s[3]:
                if m[0] in ('field', 'let'):
                    yield m[2]
                elif m[0] == 'pass':
                    yield m[1]


def depth(e):
    ch = children(e)
    return 1 + (max(depth(c) for c in ch) if ch else 0)


def simple_grammar(rules, ignore=(), name=None, start=None):
    """Convenience: rules = {name: expr} (ordered); ignore = [expr...]."""
    stmts = []
    for ig in ignore:
        stmts.append(('ignore', ig))
    for n, body in rules.items():
        stmts.append(('rule', n, None, body))
    return dict(name=name, extends=None, stmts=stmts)


def bare_py_in_ctor(G):
    """Constructor forms (Expect(...), Skip(...), Sep(...), ...) read bare inline
    Python operands as option values (evaluated when the grammar is built), so a
    grammar using one as a parsing operand is outside the language."""
    for top in grammar_exprs(G):
        for e in walk(top):
            k = e[0]
            if k in ('expect', 'expectnot', 'skip', 'longest'):
                if any(c[0] in ('py', 'num') for c in children(e)):
                    return True
            elif k == 'sep' and _sep_op(e) is None:
                if e[1][0] in ('py', 'num') or e[2][0] in ('py', 'num'):
                    return True
    return False
