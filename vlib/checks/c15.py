"""C15 -- visit and traverse enumerate the whole tree, once, in order.

Monitor: the observed object list / event stream of the real visit() and
traverse() is compared (identity of parent and child, equality of field) with a
reference enumeration written from the statement; both functions are also run on
trees deeper than the recursion limit under a tight recursion limit."""
import sys
import time

from .. import diff, observe, forest

ID = 'C15'


def plan(tier, seed):
    return dict(
        shards=16,
        rule='random forests in which leaf identity is controlled: the same object (None, small and big '
             'ints, interned and non-interned strings, bytes, floats, bools, empty containers) repeated '
             'across siblings and levels, equal-but-distinct leaves, shared sub-objects, shared lists / '
             'tuples / dicts, Infix/Prefix/Postfix nodes; hand-made hostile trees (all-None fields, a list '
             'of the same int, one object in every field); chains of depth 3x10^4 (quick) / 10^5 (thorough) '
             'through fields, lists and dicts under sys.setrecursionlimit(current depth + 100); parse '
             'results.  One evaluation = one visit or traverse call compared.  Non-trivial = distinct '
             'trees holding a repeated identical leaf or a shared container/object.',
        assumptions=['for the second meeting of a shared container the reference accepts either an '
                     'entering/finished pair without children or no events (the statement fixes only '
                     '"expanded once")', 'no cyclic pure containers'],
    )


def inconclusive(counters, evaluations, tier):
    out = []
    for k in ('visit_compared', 'traverse_compared', 'deep_trees'):
        if counters.get(k, 0) == 0:
            out.append('%s never evaluated' % k)
    return out


def has_repeats(g, root):
    """Repeated identical leaf or shared container somewhere in the tree."""
    seen = set()
    stack = [root]
    while stack:
        v = stack.pop()
        if id(v) in seen:
            return True
        seen.add(id(v))
        if isinstance(v, g.ParsedObject):
            stack.extend(getattr(v, f) for f in type(v)._fields)
        elif isinstance(v, (list, tuple)):
            stack.extend(v)
        elif isinstance(v, dict):
            stack.extend(v.values())
    return False


def check_tree(rec, g, root, case, deep=False):
    # visit
    rec.case()
    try:
        got = list(g.visit(root))
    except RecursionError as e:
        rec.violation('visit:RecursionError', 'visit under a tight recursion limit', case, 'no recursion', str(e)[:80])
        got = None
    except Exception as e:
        rec.violation('visit:%s' % type(e).__name__, 'visit', case, 'object list', str(e)[:120])
        got = None
    if got is not None:
        want = forest.ref_visit(g, root)
        rec.count('visit_compared')
        rec.count('visit_objects', len(want))
        if len(got) != len(want) or any(a is not b for a, b in zip(got, want)):
            k = next((i for i, (a, b) in enumerate(zip(got, want)) if a is not b), min(len(got), len(want)))
            rec.violation('visit:differs', 'visit vs reference enumeration', case,
                          '%d objects; #%d = %s' % (len(want), k, short(want[k]) if k < len(want) else 'end'),
                          '%d objects; #%d = %s' % (len(got), k, short(got[k]) if k < len(got) else 'end'))
    # traverse
    rec.case()
    try:
        ev = [(e.parent, e.field, e.child, e.is_finished) for e in g.traverse(root)]
    except RecursionError as e:
        rec.violation('traverse:RecursionError', 'traverse under a tight recursion limit', case, 'no recursion', str(e)[:80])
        return
    except Exception as e:
        rec.violation('traverse:%s' % type(e).__name__, 'traverse', case, 'event stream', str(e)[:120])
        return
    want, optional = forest.ref_traverse(g, root)
    rec.count('traverse_compared')
    rec.count('traverse_events', len(ev))
    why = forest.compare_traverse(want, optional, ev)
    if why is not None:
        rec.violation('traverse:differs', 'traverse vs reference event list', case,
                      '%d reference events (%d optional pairs)' % (len(want), len(optional)), why)
    if has_repeats(g, root):
        rec.nontrivial(('tree', id(root)))
        rec.count('trees_with_repeats')


def short(v):
    try:
        s = repr(v)
    except RecursionError:
        s = '<deep %s>' % type(v).__name__
    return s if len(s) < 120 else s[:117] + '...'


def hostile_trees(g):
    s = 'shared-' + 'string'
    o = g.U1('x')
    lst = [o, None]
    big = 10 ** 30
    yield 'all-none', g.Q5(None, None, None, None, None)
    yield 'same-int-list', g.U1([7, 7, 7, 7])
    yield 'same-big-int', g.B2([big, big], (big, big))
    yield 'same-str', g.T3(s, s, [s, s, {'k': s, 'j': s}])
    yield 'same-obj-everywhere', g.T3(o, o, [o, (o, o), {'k': o}])
    yield 'shared-list', g.T3(lst, lst, [lst, lst])
    yield 'shared-empty-list-tuple', g.T3([], (), [(), (), [], []])
    yield 'bools-and-ints', g.Q5(True, 1, 1.0, False, 0)
    yield 'root-list', [None, None, g.Z0(), [None, [None]], {'a': None, 'b': None}]
    yield 'root-leaf', None
    yield 'root-dict', {'a': g.U1(None), 'b': g.U1(None)}
    yield 'infix-same', g.Infix(g.Prefix('-', 1), '-', g.Postfix(1, '-'))
    yield 'dict-keys', g.U1({1: 'a', 'a': 1, None: None})


def deep_tree(g, kind, n):
    leaf = g.U1(None)
    cur = leaf
    for i in range(n):
        if kind == 'fields':
            cur = g.B2(None, cur)
        elif kind == 'lists':
            cur = [None, cur]
        elif kind == 'dicts':
            cur = {'k': cur}
        else:
            cur = g.U1([cur]) if i % 2 else (cur, None)
    return cur


def run_shard(rec):
    quick = rec.tier == 'quick'
    rec.deadline = time.time() + (300 if quick else 600)
    g = forest.load_module()
    rng = rec.rng
    if rec.shard % 4 == 0:
        for tag, t in hostile_trees(g):
            check_tree(rec, g, t, dict(kind='hostile', tree=tag))
    n = 4000 if quick else 600000
    for k in range(n):
        if rec.out_of_time():
            rec.count('cut_by_time')
            break
        fgen = forest.ForestGen(rng, g, share=rng.choice([0.0, 0.2, 0.5]), named_tuples=True)
        root = fgen.obj(rng.randint(1, 5)) if rng.random() < 0.8 else fgen.tree(rng.randint(1, 5))
        check_tree(rec, g, root, dict(kind='forest', seed=rec.seed, shard=rec.shard, forest=k, tree=short(root)[:200]))
        if k == 0:
            rec.sample(dict(tree=short(root)), limit=2)
    if rec.shard == 2:
        expansion_counting(rec, g)
    # parse results
    for text in ['', 'abab', 'aabcde1+2', '-1!+2+3', 'vvabcz']:
        o = observe.observe(g, text)
        if o.outcome[0] == 'value':
            check_tree(rec, g, o.value, dict(kind='parse-result', text_repr=repr(text)))
    # depth beyond the recursion limit
    depth = 30000 if quick else 100000
    kinds = ['fields', 'lists', 'dicts', 'mixed']
    kind = kinds[rec.shard % 4]
    if rec.shard < 4 or not quick:
        root = deep_tree(g, kind, depth)
        frame_depth = len(_stack())
        old = sys.getrecursionlimit()
        # the reference runs in its own thread with its own limit; the code under test must not recurse
        sys.setrecursionlimit(frame_depth + 100)
        try:
            rec.case()
            try:
                n_obj = sum(1 for _ in g.visit(root))
                n_ev = sum(1 for _ in g.traverse(root))
                rec.count('deep_trees')
                rec.maxi('deep_tree_depth', depth)
                rec.nontrivial(('deep', kind))
            except RecursionError as e:
                rec.violation('deep:RecursionError:%s' % kind, 'visit/traverse on depth %d under recursion limit +100' % depth,
                              dict(kind='deep', shape=kind, depth=depth), 'no RecursionError', str(e)[:80])
                n_obj = n_ev = None
        finally:
            sys.setrecursionlimit(old)
        if n_obj is not None:
            want_obj = {'fields': depth + 1, 'lists': 1, 'dicts': 1, 'mixed': depth // 2 + 1}[kind]
            if n_obj != want_obj:
                rec.violation('deep:visit-count:%s' % kind, 'visit on a deep chain', dict(kind='deep', shape=kind, depth=depth), want_obj, n_obj)
            want_ev = {'fields': 2 * (2 * depth + 2), 'lists': 2 * (2 * depth + 1 + 1), 'dicts': 2 * (depth + 1 + 1),
                       'mixed': None}[kind]
            if want_ev is not None and n_ev != want_ev:
                rec.violation('deep:traverse-count:%s' % kind, 'traverse on a deep chain', dict(kind='deep', shape=kind, depth=depth), want_ev, n_ev)
        # break the chain iteratively so that deallocation does not recurse either
        del root


class _Runaway(Exception):
    pass


def expansion_counting(rec, g):
    """'Both expand a shared object or container only the first time they meet it', observed on the
    containers themselves: list / dict subclasses that count how often they are iterated (any way of
    reading the elements: iter, reversed, values, items, indexing), placed at several positions of a
    tree (a DAG of nested shared lists, a list that contains itself, a dict reachable twice).  A
    container read more than 8 times raises, so that a runaway shows as a verdict, not as a hang."""
    reads = {}

    def bump(c):
        n = reads.get(id(c), 0) + 1
        reads[id(c)] = n
        if n > 8:
            raise _Runaway('container read %d times' % n)

    class CL(list):
        def __iter__(self):
            bump(self)
            return list.__iter__(self)

        def __reversed__(self):
            bump(self)
            return list.__reversed__(self)

    class CD(dict):
        def values(self):
            bump(self)
            return dict.values(self)

        def items(self):
            bump(self)
            return dict.items(self)

        def __iter__(self):
            bump(self)
            return dict.__iter__(self)

    leaf_cls = [c for c in vars(g).values() if isinstance(c, type) and issubclass(c, g.ParsedObject) and len(getattr(c, '_fields', ())) == 1
                and c.__name__ not in ('ParsedObject',)]
    if not leaf_cls:
        return
    K = leaf_cls[0]
    trees = []
    # nested sharing: level i holds level i-1 twice (2^depth paths to the single object at the bottom)
    x = K('bottom')
    lvl = CL([x])
    keep = [lvl]
    for _ in range(30):
        lvl = CL([lvl, lvl])
        keep.append(lvl)
    trees.append(('nested-shared-lists', lvl, keep, 1))
    d = CD(a=K('in-dict'), b=K('in-dict-2'))
    trees.append(('dict-twice', CL([d, K('between'), d]), [d], 3))
    cyc = CL([K('in-cycle')])
    cyc.append(cyc)
    trees.append(('list-containing-itself', cyc, [cyc], 1))
    dd = CD(k=K('v'))
    dd['self'] = dd
    trees.append(('dict-containing-itself', CL([dd]), [dd], 1))
    for tag, root, containers, nobj in trees:
        for fn_name in ('visit', 'traverse'):
            reads.clear()
            rec.case()
            rec.nontrivial(('expansion', tag, fn_name))
            case = dict(kind='expansion', tree=tag, function=fn_name)
            try:
                n = 0
                for ev in getattr(g, fn_name)(root):
                    n += 1
                    if n > 100000:
                        raise _Runaway('more than 100000 results')
                rec.count('expansion_counted_containers', len(containers))
                worst = max((reads.get(id(c), 0) for c in containers), default=0)
                if worst > 1:
                    rec.violation('expansion:%s:container-read-%d-times' % (fn_name, worst), 'iteration counters on shared containers', case,
                                  'every container expanded at most once', 'a container was read %d times' % worst)
                if fn_name == 'visit' and n != nobj:
                    rec.violation('expansion:visit-count', 'visit on shared containers', case, nobj, n)
            except _Runaway as e:
                rec.violation('expansion:%s:runaway' % fn_name, 'iteration counters on shared containers', case,
                              'every container expanded at most once', str(e))


def _stack():
    out = []
    f = sys._getframe()
    while f is not None:
        out.append(f)
        f = f.f_back
    return out


def replay(rec, rep):
    case = rep['case']
    import random
    rec.seed = case.get('seed', rec.seed)
    rec.shard = case.get('shard', 0)
    rec.rng = random.Random((rec.seed * 1000003 + rec.shard) & 0xffffffff)
    run_shard(rec)
