"""C13 -- inheritance: overrides are late-bound, super is the parent, parent untouched.

Monitors: boundary recorder vs reference model evaluated with a context chain
(late-bound lookup through the most derived grammar, `super.R` bound statically
to the parent of the grammar in which it is written, ignore patterns of the
whole chain); parent before/after differential (A's outcomes do not change once
B / C exist, nor when a second grammar re-uses a name)."""
import sys
import time

from .. import gast, gen, diff, work, observe, refpeg

ID = 'C13'


def plan(tier, seed):
    return dict(
        shards=16,
        rule='seeded base/derived pairs and chains of length 3: every base rule is independently inherited, '
             'overridden, overridden with `super`, and new rules/classes are added; ignore declarations in '
             '{none, base named, base anonymous, derived only, both, three levels}; plain and dotted grammar '
             'names; creation orders (A,B,use) and (A,use,B,use); inputs = all strings up to length 4 over '
             'the rule alphabet (+ ignorable characters).  Entry points: module-level parse and every rule '
             'the derived grammar itself defines; A is re-run after B and C exist.  Non-trivial = distinct '
             '(chain, entry, input) whose model run entered an overridden rule from an inherited one, or '
             'used super.',
        assumptions=['reference model with context chains (vlib/refpeg.py)',
                     'whether literals of inherited rules skip ignore patterns declared only by the derived '
                     'grammar is not settled by the statement: both readings are accepted',
                     'inherited rules used as entry points through the derived module (B.<inherited>.parse) '
                     'are not exercised (the object is the parent\'s rule)'],
    )


def inconclusive(counters, evaluations, tier):
    out = []
    if counters.get('parent_rechecked', 0) == 0:
        out.append('parent before/after differential evaluated nothing')
    return out


T = ('re', '[ab]', False)


class ChainGen:
    def __init__(self, rng, levels, ignore_mode, dotted=False):
        self.rng = rng
        self.levels = levels
        self.ignore_mode = ignore_mode
        self.dotted = dotted

    def base_rules(self):
        r = self.rng
        rules = {}
        rules['Item'] = r.choice([T, ('str', 'a'), ('alt', [('str', 'a'), ('str', 'b')])])
        rules['Pair'] = ('seq', [('ref', 'Item'), r.choice([('str', ','), ('str', ':')]), ('ref', 'Item')])
        rules['Elem'] = r.choice([('alt', [('ref', 'Pair'), ('ref', 'Item')]),
                                  ('alt', [('seq', [('str', '('), ('ref', 'List'), ('str', ')')]), ('ref', 'Pair'), ('ref', 'Item')]),
                                  # directly self-recursive: the inner reference must stay late-bound
                                  ('alt', [('seq', [('str', '('), ('ref', 'Elem'), ('str', ')')]), ('ref', 'Pair'), ('ref', 'Item')]),
                                  ('alt', [('right', ('str', '('), ('left', ('ref', 'Elem'), ('str', ')'))), ('ref', 'Item')])])
        rules['List'] = r.choice([('star', ('ref', 'Elem')), ('sep', ('ref', 'Elem'), ('str', ';'), {'_op': '//'}),
                                  ('plus', ('ref', 'Elem'))])
        rules['start'] = r.choice([('ref', 'List'), ('seq', [('ref', 'List'), ('opt', ('str', '!'))])])
        self.with_template = r.random() < 0.5
        if self.with_template:
            # a parameterised rule called with fixed arguments from an inherited rule
            rules['Elem'] = ('alt', [('call', 'Wrap', [('ref', 'Item')]), rules['Elem']])
        return rules

    def override(self, name, level):
        """A new body for `name` in the grammar at `level` (1 or 2)."""
        r = self.rng
        kind = r.choice(['replace', 'super-alt', 'super-seq', 'super-opt'])
        mark = 'c' if level == 1 else 'd'
        if name == 'Item':
            new = r.choice([('str', mark), ('re', '[%s]' % (mark + 'a'), False)])
        elif name == 'Pair':
            new = ('seq', [('ref', 'Item'), ('str', '='), ('ref', 'Item')])
        elif name == 'Elem':
            new = ('alt', [('seq', [('str', '<'), ('ref', 'Item'), ('str', '>')]), ('ref', 'Item')])
        elif name == 'List':
            new = ('seq', [('str', '['), ('star', ('ref', 'Elem')), ('str', ']')])
        else:
            new = ('seq', [('str', mark), ('ref', 'List')])
        if kind == 'replace':
            return new, False
        if kind == 'super-alt':
            return ('alt', [new, ('super', name)]), True
        if kind == 'super-seq':
            return ('alt', [('seq', [('str', mark), ('super', name)]), ('super', name)]), True
        return ('alt', [('seq', [('super', name), ('str', mark)]), new]), True

    def ignores_for(self, level):
        m = self.ignore_mode
        out = []
        if level == 0 and m in ('base-named', 'both', 'three'):
            out.append(('irule', 'Space', ('re', ' +', False)))
        if level == 0 and m in ('base-anon', 'both-anon'):
            out.append(('ignore', ('re', ' +', False)))
        if level == 1 and m in ('derived', 'both', 'both-anon', 'three'):
            out.append(('ignore', ('str', '_')) if self.rng.random() < 0.5 else ('irule', 'Under', ('str', '_')))
        if level == 2 and m == 'three':
            out.append(('irule', 'Tilde', ('str', '~')))
        return out

    def chain(self):
        r = self.rng
        uid = diff.unique_name('vt_c13')
        if self.dotted:
            names = ['%s_pkg.lvl%d' % (uid, i) for i in range(self.levels)]
        else:
            names = ['%s_%d' % (uid, i) for i in range(self.levels)]
        grammars = []
        base = self.base_rules()
        stmts = [('rule', n, None, b) for n, b in base.items()]
        if self.with_template:
            stmts.append(('rule', 'Wrap', ['p'], ('seq', [('str', '<'), ('ref', 'p'), ('str', '>')])))
        if r.random() < 0.5:
            stmts.append(('class', 'Pt', None, [('field', 'x', ('ref', 'Item')), ('field', 'y', ('opt', ('ref', 'Item')))]))
            stmts = [s if s[1] != 'Elem' else ('rule', 'Elem', None, ('alt', [('seq', [('str', '@'), ('ref', 'Pt')]), s[3]])) for s in stmts]
        stmts = self.ignores_for(0) + stmts if r.random() < 0.5 else stmts + self.ignores_for(0)
        grammars.append(dict(name=names[0], extends=None, stmts=stmts))
        defined = set(base)
        uses_super = False
        for level in range(1, self.levels):
            stmts = []
            for n in ['Item', 'Pair', 'Elem', 'List', 'start']:
                if r.random() < 0.4:
                    body, sup = self.override(n, level)
                    uses_super = uses_super or sup
                    stmts.append(('rule', n, None, body))
            if self.with_template and r.random() < 0.5:
                mark = '{' if level == 1 else '['
                close = '}' if level == 1 else ']'
                nb = ('seq', [('str', mark), ('ref', 'p'), ('str', close)])
                if r.random() < 0.5:
                    nb = ('alt', [nb, ('call', 'super.Wrap', [('ref', 'p')])])
                stmts.append(('rule', 'Wrap', ['p'], nb))
            if r.random() < 0.4:
                stmts.append(('rule', 'Extra%d' % level, None, ('seq', [('str', '#'), ('ref', 'Item')])))
                stmts = [s if s[1] != 'Elem' else ('rule', 'Elem', None, ('alt', [('ref', 'Extra%d' % level), s[3]])) for s in stmts]
            if r.random() < 0.3 and any(s[0] == 'class' for s in grammars[0]['stmts']):
                stmts.append(('class', 'Pt', None, [('field', 'x', ('ref', 'Item')), ('field', 'z', ('str', '^'))]))
            if r.random() < 0.3:
                # a class that only this level defines (the base may have no class at all), reached
                # through an override of Elem
                cname = 'Nw%d' % level
                stmts.append(('class', cname, None, [('field', 'v', ('ref', 'Item')), ('field', 'w', ('opt', ('str', '%')))]))
                had = [s for s in stmts if s[0] == 'rule' and s[1] == 'Elem']
                prev = had[0][3] if had else ('super', 'Elem')
                stmts = [s for s in stmts if not (s[0] == 'rule' and s[1] == 'Elem')]
                stmts.append(('rule', 'Elem', None, ('alt', [('seq', [('str', '%'), ('ref', cname)]), prev])))
                uses_super = uses_super or not had
            if not stmts:
                body, sup = self.override('Item', level)
                stmts.append(('rule', 'Item', None, body))
            stmts = stmts + self.ignores_for(level)
            grammars.append(dict(name=names[level], extends=names[level - 1], stmts=stmts))
        if r.random() < 0.25:
            # the start rule is found whatever its capitalisation, in the grammar itself and when inherited
            from .c20 import rename_grammar
            spelled = r.choice(['Start', 'START'])
            grammars = [rename_grammar(G, {'start': spelled}) for G in grammars]
        return grammars


def alphabet_of(grammars, ignore_mode):
    al = work.grammar_alphabet(grammars)
    keep = ''.join(c for c in al if c in 'abcd,:;()<>[]{}=#@^!%')
    extra = {'none': '', 'base-named': ' ', 'base-anon': ' ', 'derived': '_', 'both': ' _', 'both-anon': ' _', 'three': ' _~'}[ignore_mode]
    return keep, extra


def own_entries(G):
    return [None] + [s[1] for s in G['stmts'] if s[0] in ('rule', 'class') and s[2] is None]


def outcomes_for(g, calls):
    return [observe.observe(g, t, e).outcome for e, t in calls]


def run_chain(rec, grammars, ignore_mode, order, quick, trusted=False):
    # curated chains are trusted (the static analysis treats a parameter under a repetition as possibly
    # empty and would drop them silently; the model re-checks progress on every input)
    for i in range(1, len(grammars) + 1):
        if not trusted and not gen.well_formed(grammars[:i]):
            rec.drop()
            return
    # derived grammars are written with and without the `override` / `overrides` keyword
    kws = [None] + [rec.rng.choice([None, 'override', 'overrides']) for _ in grammars[1:]]
    descs = [gast.render_grammar(G, gast.Style(override_kw=kw)) for G, kw in zip(grammars, kws)]
    names = [G['name'] for G in grammars]
    tokens, ign = alphabet_of(grammars, ignore_mode)
    chain_all = refpeg.build_chain(grammars)
    sampler_inputs = []
    try:
        sm = gen.Sampler(rec.rng, grammars, ign)
        sampler_inputs = [t for t in sm.sentences('start', 40) if len(t) <= 14]
    except Exception:
        pass
    # near misses of the sampled sentences: one character replaced by another token character (what an
    # inherited or overridden rule must REJECT is as telling as what it accepts)
    near = []
    singles = [t for t in tokens if len(t) == 1][:8]
    for t in sampler_inputs[:12]:
        for i in range(len(t)):
            for c in singles:
                if c != t[i]:
                    near.append(t[:i] + c + t[i + 1:])
    near = list(dict.fromkeys(near))
    rec.rng.shuffle(near)
    base_inputs = list(dict.fromkeys(list(gen.all_strings(tokens[:5], 2)) + sampler_inputs + near[:80 if quick else 400]))
    mods = []
    case0 = dict(kind='chain', grammars_repr=repr(grammars), descs=descs, ignore_mode=ignore_mode, order=order)
    parent_before = {}
    try:
        for lvl, (G, d) in enumerate(zip(grammars, descs)):
            r = observe.compile_grammar(d)
            rec.case()
            if r[0] != 'ok':
                rec.violation('grammar-error:level%d:%s' % (lvl, r[1] if r[0] != 'timeout' else 'nontermination'),
                              'Grammar() outcome', dict(case0, level=lvl), 'module', r)
                return
            mods.append(r[1])
            chain = chain_all[:lvl + 1]
            # inputs: short exhaustive + sampled sentences + ignorable text sprinkled in
            ins = list(base_inputs)
            if ign:
                for t in base_inputs[:60]:
                    if t:
                        k = rec.rng.randint(0, len(t))
                        ins.append(t[:k] + rec.rng.choice(ign) + t[k:])
                        ins.append(rec.rng.choice(ign) + t + rec.rng.choice(ign))
            calls = [(e, t) for t in ins for e in own_entries(G)[:4]]
            if order == 'use-early' or lvl == len(grammars) - 1:
                check_level(rec, mods[lvl], chain, calls, dict(case0, level=lvl), lvl)
            # parent untouched: re-run every earlier level on a fixed call list and compare with
            # what it returned before this level existed
            for plvl in range(lvl + 1):
                pcalls = [(e, t) for t in base_inputs[:40] for e in own_entries(grammars[plvl])[:3]]
                outs = outcomes_for(mods[plvl], pcalls)
                rec.case(len(outs))
                key = plvl
                if key in parent_before:
                    rec.count('parent_rechecked', len(outs))
                    for (e, t), a, b2 in zip(pcalls, parent_before[key], outs):
                        if not observe.same_outcome(a, b2):
                            rec.violation('parent-changed:level%d-after-level%d' % (plvl, lvl), 'parent before/after differential',
                                          dict(case0, level=plvl, entry=e, text_repr=repr(t)), a, b2)
                            break
                else:
                    parent_before[key] = outs
        # back to back on the SAME text object: every module of the family right after every other one
        # (whatever a call leaves behind -- also a call that failed -- must not reach the next module)
        b2b = base_inputs[:25 if quick else 120]
        for t in b2b:
            for i in range(len(mods)):
                for j in range(len(mods)):
                    if i == j:
                        continue
                    observe.observe(mods[i], t)
                    rec.count('back_to_back_pairs')
                    check_level(rec, mods[j], chain_all[:j + 1], [(None, t)], dict(case0, level=j, after_level=i, back_to_back=True), j)
        # a second grammar re-using the base name must not alter the existing modules
        other = dict(name=names[0], extends=None, stmts=[('rule', 'start', None, ('str', 'zzz')), ('rule', 'Item', None, ('str', 'q'))])
        r = observe.compile_grammar(gast.render_grammar(other))
        if r[0] == 'ok':
            for plvl in range(len(mods)):
                pcalls = [(e, t) for t in base_inputs[:40] for e in own_entries(grammars[plvl])[:3]]
                outs = outcomes_for(mods[plvl], pcalls)
                rec.case(len(outs))
                rec.count('parent_rechecked', len(outs))
                for (e, t), a, b2 in zip(pcalls, parent_before[plvl], outs):
                    if not observe.same_outcome(a, b2):
                        rec.violation('parent-changed:level%d-after-name-reuse' % plvl, 'name re-use differential',
                                      dict(case0, level=plvl, entry=e, text_repr=repr(t)), a, b2)
                        break
    finally:
        for n in names:
            sys.modules.pop(n, None)
            if '.' in n:
                sys.modules.pop(n.rsplit('.', 1)[0], None)
    rec.sample(dict(descriptions=descs, ignore_mode=ignore_mode, order=order), limit=2)


def check_level(rec, g, chain, calls, case, lvl):
    for entry, text in calls:
        outs = []
        model = None
        for late in (True, False):
            try:
                exp, model = refpeg.expected(chain, text, entry, 0, True, late_ignore=late)
                outs.append(exp)
            except (refpeg.IllFormed, refpeg.ModelBudget, RecursionError):
                rec.drop()
                outs = None
                break
        if outs is None:
            continue
        o = observe.observe(g, text, entry)
        rec.case()
        if lvl > 0 and model is not None and model.steps > 4:
            rec.nontrivial((case['descs'][-1], entry, text))
        if not any(observe.same_outcome(e, o.outcome) for e in outs):
            rec.violation('E1-chain:level%d:%s->%s' % (lvl, observe.outcome_class(outs[0]), observe.outcome_class(o.outcome)),
                          'reference model with context chain', dict(case, entry=entry, text_repr=repr(text)), outs[0], o.outcome)
        if not observe.same_outcome(outs[0], outs[1]):
            rec.count('undecided_ignore_cases')


MODES = ['none', 'base-named', 'base-anon', 'derived', 'both', 'both-anon', 'three']


def curated_chains():
    """Deterministic hostile chains: (tag, ignore_mode, [stmts per level])."""
    A = [('rule', 'start', None, ('star', ('ref', 'Elem'))),
         ('rule', 'Elem', None, ('alt', [('seq', [('str', '('), ('ref', 'start'), ('str', ')')]), ('ref', 'Item')])),
         ('rule', 'Item', None, ('alt', [('str', 'a'), ('str', 'b')])),
         ('class', 'Pt', None, [('field', 'x', ('ref', 'Item')), ('field', 'y', ('opt', ('ref', 'Item')))])]
    B_super_item = [('rule', 'Item', None, ('alt', [('str', 'c'), ('super', 'Item')]))]
    out = []
    out.append(('late-binding', 'none', [A, [('rule', 'Item', None, ('str', 'c'))]]))
    out.append(('super-2', 'none', [A, B_super_item]))
    out.append(('super-3-inherited', 'none', [A, B_super_item, [('rule', 'Extra', None, ('seq', [('str', '#'), ('ref', 'Item')]))]]))
    out.append(('super-3-both', 'none', [A, B_super_item, [('rule', 'Item', None, ('alt', [('str', 'd'), ('super', 'Item')]))]]))
    out.append(('super-3-start', 'none', [A, [('rule', 'start', None, ('right', ('str', '!'), ('super', 'start')))],
                                          [('rule', 'Item', None, ('alt', [('str', 'd'), ('super', 'Item')]))]]))
    # direct self-recursion in the base rule + override reaching it through super + a new form nested
    # inside an old form: the recursive reference inside the inherited rule must use the override
    REC = [('rule', 'start', None, ('ref', 'Expr')),
           ('rule', 'Expr', None, ('alt', [('right', ('str', '('), ('left', ('ref', 'Expr'), ('str', ')'))), ('ref', 'Num')])),
           ('rule', 'Num', None, ('re', '[ab]', False))]
    NEG = [('rule', 'Expr', None, ('alt', [('ref', 'Neg'), ('super', 'Expr')])),
           ('rule', 'Neg', None, ('seq', [('str', 'c'), ('ref', 'Expr')]))]
    out.append(('self-recursive-2', 'none', [REC, NEG]))
    out.append(('self-recursive-3', 'none', [REC, NEG, [('rule', 'Num', None, ('alt', [('str', 'd'), ('super', 'Num')]))]]))
    out.append(('self-recursive-3b', 'none', [REC, [('rule', 'Num', None, ('alt', [('str', 'd'), ('super', 'Num')]))], NEG]))
    TB = [('rule', 'start', None, ('star', ('alt', [('call', 'Wrap', [('ref', 'Item')]), ('ref', 'Item')]))),
          ('rule', 'Wrap', ['p'], ('seq', [('str', '<'), ('ref', 'p'), ('str', '>')])),
          ('rule', 'Item', None, ('alt', [('str', 'a'), ('str', 'b')]))]
    out.append(('template-override', 'none', [TB, [('rule', 'Wrap', ['p'], ('seq', [('str', '{'), ('ref', 'p'), ('str', '}')]))]]))
    out.append(('template-override-super', 'none', [TB, [('rule', 'Wrap', ['p'], ('alt', [('seq', [('str', '{'), ('ref', 'p'), ('str', '}')]),
                                                                                    ('call', 'super.Wrap', [('ref', 'p')])]))],
                                                    [('rule', 'Item', None, ('alt', [('str', 'd'), ('super', 'Item')]))]]))
    # super.R handed on as an ARGUMENT (by position, by keyword) in the middle grammar of a chain: it
    # denotes the parent of the grammar in which it is written, whoever parses
    SA = [('rule', 'start', None, ('star', ('call', 'Wrap', [('ref', 'Item')]))),
          ('rule', 'Wrap', ['p'], ('seq', [('str', '<'), ('ref', 'p'), ('str', '>')])),
          ('rule', 'Item', None, ('alt', [('str', 'a'), ('str', 'b')]))]
    SB = lambda arg: [('rule', 'Item', None, ('alt', [('str', 'c'), ('super', 'Item')])),
                      ('rule', 'start', None, ('star', ('alt', [('right', ('str', '!'), ('call', 'Wrap', [arg])), ('call', 'Wrap', [('ref', 'Item')])])))]
    SC = [('rule', 'Item', None, ('alt', [('str', 'd'), ('super', 'Item')]))]
    out.append(('super-as-argument-2', 'none', [SA, SB(('super', 'Item'))]))
    out.append(('super-as-argument-3', 'none', [SA, SB(('super', 'Item')), SC]))
    out.append(('super-as-keyword-argument-3', 'none', [SA, SB(('kw', 'p', ('super', 'Item'))), SC]))
    out.append(('super-in-compound-argument-3', 'none', [SA, SB(('alt', [('super', 'Item'), ('str', '-')])), SC]))
    out.append(('class-override', 'none', [A + [('rule', 'P', None, ('seq', [('str', '@'), ('ref', 'Pt')]))],
                                           [('class', 'Pt', None, [('field', 'x', ('ref', 'Item')), ('field', 'z', ('str', '^'))])]]))
    # an override that changes what the generator can know statically about the rule it replaces: a
    # token (cannot fail after consuming) becomes a sequence that can; a rule that always succeeds
    # becomes one that can fail; a rule that must consume becomes one that may match nothing --
    # referenced from inherited rules as non-last alternative, repetition element, list element /
    # separator, Skip operand and lookahead
    ST = [('rule', 'start', None, ('plus', ('ref', 'Value'))),
          ('rule', 'Value', None, ('alt', [('ref', 'Num'), ('ref', 'Word')])),
          ('rule', 'Num', None, ('str', 'a')),
          ('rule', 'Word', None, ('re', '[ab]', False)),
          ('rule', 'Many', None, ('seq', [('star', ('ref', 'Num')), ('star', ('ref', 'Word'))])),
          ('rule', 'Lst', None, ('seq', [('sep', ('ref', 'Num'), ('str', ','), {'_op': '//'}), ('star', ('ref', 'Word'))])),
          ('rule', 'Sk', None, ('seq', [('skip', [('ref', 'Num')]), ('star', ('ref', 'Word'))])),
          ('rule', 'Opt', None, ('seq', [('opt', ('ref', 'Num')), ('star', ('ref', 'Word'))])),
          ('rule', 'Look', None, ('seq', [('alt', [('right', ('expect', ('ref', 'Num')), ('str', 'a')), ('ref', 'Word')]), ('star', ('ref', 'Word'))])),
          ('rule', 'Maybe', None, ('opt', ('str', 'b'))),
          ('rule', 'UseMaybe', None, ('alt', [('seq', [('ref', 'Maybe'), ('str', 'a')]), ('re', '[ab]*', False)]))]
    out.append(('static-token-to-sequence', 'none', [ST, [('rule', 'Num', None, ('seq', [('str', 'a'), ('str', 'b'), ('str', 'a')]))]]))
    out.append(('static-token-to-sequence-3', 'none', [ST, [('rule', 'Extra', None, ('str', '#'))],
                                                       [('rule', 'Num', None, ('seq', [('str', 'a'), ('str', 'b'), ('str', 'a')]))]]))
    out.append(('static-infallible-to-fallible', 'none', [ST, [('rule', 'Maybe', None, ('seq', [('str', 'b'), ('str', 'b')]))]]))
    # the start rule that a derived grammar inherits is a class
    CS = [('class', 'start', None, [('field', 'items', ('star', ('ref', 'Item'))), ('field', 'end', ('opt', ('str', '!')))]),
          ('rule', 'Item', None, ('alt', [('str', 'a'), ('str', 'b')]))]
    out.append(('class-start-inherited', 'none', [CS, [('rule', 'Item', None, ('alt', [('str', 'c'), ('super', 'Item')]))]]))
    out.append(('class-start-inherited-3', 'none', [CS, [('rule', 'Extra', None, ('str', '#'))], [('rule', 'Item', None, ('alt', [('str', 'c'), ('super', 'Item')]))]]))
    sp = ('irule', 'Space', ('re', ' +', False))
    an = ('ignore', ('re', ' +', False))
    un = ('ignore', ('str', '_'))
    ti = ('irule', 'Tilde', ('str', '~'))
    out.append(('ignore-base-named', 'base-named', [[sp] + A, B_super_item]))
    out.append(('ignore-base-anon', 'base-anon', [[an] + A, B_super_item]))
    out.append(('ignore-base-anon-3', 'base-anon', [A + [an], B_super_item, [('rule', 'Item', None, ('alt', [('str', 'd'), ('super', 'Item')]))]]))
    out.append(('ignore-derived', 'derived', [A, B_super_item + [un]]))
    out.append(('ignore-both', 'both', [[sp] + A, B_super_item + [un]]))
    out.append(('ignore-both-anon', 'both-anon', [[an] + A, B_super_item + [un]]))
    out.append(('ignore-three', 'three', [[sp] + A, B_super_item + [un], [('rule', 'Item', None, ('alt', [('str', 'd'), ('super', 'Item')])), ti]]))
    out.append(('class-start-inherited-ignore', 'base-named', [[sp] + CS, [('rule', 'Item', None, ('alt', [('str', 'c'), ('super', 'Item')]))]]))
    # the same literal text handed to a template by the base and by the derived grammar, which differ in
    # their ignore patterns: each grammar's own literal skips what that grammar ignores
    LA = [('rule', 'start', None, ('star', ('call', 'Pt2', [('str', 'a')]))),
          ('rule', 'Pt2', ['x'], ('seq', [('ref', 'x'), ('opt', ('str', 'b'))]))]
    LB = [('rule', 'start', None, ('star', ('alt', [('call', 'Pt2', [('str', 'a')]), ('call', 'Pt2', [('kw', 'x', ('str', 'c'))])])))]
    out.append(('literal-argument-both-levels-derived-ignore', 'derived', [LA, LB + [un]]))
    out.append(('literal-argument-both-levels-both-ignore', 'both', [[sp] + LA, LB + [un]]))
    out.append(('literal-argument-both-levels-base-ignore', 'base-named', [[sp] + LA, LB]))
    out.append(('ignore-three-gap', 'three', [[sp] + A, B_super_item, [('rule', 'Extra', None, ('str', '#')), ti]]))
    return out


def build_curated(stmts_per_level, dotted):
    uid = diff.unique_name('vt_c13c')
    names = [('%s_pkg.sub%d' if dotted else '%s_%d') % (uid, i) for i in range(len(stmts_per_level))]
    return [dict(name=names[i], extends=names[i - 1] if i else None, stmts=list(st)) for i, st in enumerate(stmts_per_level)]


def run_shard(rec):
    quick = rec.tier == 'quick'
    rec.deadline = time.time() + (300 if quick else 800)
    idx = 0
    if rec.shard == 0:
        # any order of creating the modules: a base re-created under its name (or a failing attempt to)
        # after it has been extended, then extended again (scenario shared with C11)
        from . import c11
        c11.name_reuse(rec)
    for tag, mode, levels in curated_chains():
        for dotted in (False, True):
            for order in ('use-early', 'use-late'):
                idx += 1
                if rec.mine(idx):
                    run_chain(rec, build_curated(levels, dotted), mode, order, quick, trusted=True)
                    rec.count('curated_chains')
    n = 25 if quick else 500
    for i in range(n):
        if rec.out_of_time():
            rec.count('cut_by_time')
            break
        k = i + rec.shard
        mode = MODES[k % len(MODES)]
        levels = 3 if (mode == 'three' or k % 3 == 0) else 2
        dotted = (k % 5 == 4)
        cg = ChainGen(rec.rng, levels, mode, dotted)
        grammars = cg.chain()
        run_chain(rec, grammars, mode, 'use-early' if k % 2 else 'use-late', quick)
        rec.count('chains')
        rec.count('chains_mode:' + mode)
        if dotted:
            rec.count('chains_dotted')


def replay(rec, rep):
    import ast
    case = rep['case']
    if case.get('kind') == 'name-reuse':
        from . import c11
        return c11.name_reuse(rec)
    grammars = ast.literal_eval(case['grammars_repr'])
    # fresh names so that a stale sys.modules entry cannot interfere
    run_chain(rec, grammars, case.get('ignore_mode', 'none'), case.get('order', 'use-early'), True)
