"""C10 -- class instances carry the exact span of input they were parsed from.

Monitors: (a) reference spans: the normal form of every value includes the span
of every instance and is compared with the model's; (b) contract on
_finalize_parse_info (every reachable instance converted exactly once to
_PositionInfo(_Position, _Position) with the line/column of its offsets, also
when PartialParseError is raised); (c) model-free structural invariants over
distinct instances (child inside parent, siblings disjoint and ordered)."""
import time

from .. import gast, gen, diff, work, observe, errcheck, contracts, corpus

ID = 'C10'


def plan(tier, seed):
    return dict(
        shards=16,
        rule='class-heavy random grammars (nested, repeated, optional classes; the same class tried in '
             'abandoned alternatives and re-used through the memo; classes under lookahead, in operator '
             'tables and passed to templates), with and without multi-line ignore patterns; inputs by '
             'model-guided search over alphabets with spaces and newlines; entry points = start and every '
             'class, pos in {0,1,2}; partial_result trees included; plus structural invariants on the '
             'metaparser\'s trees for every repository description.  Non-trivial = distinct '
             '(description,entry,input,pos) whose expected value holds >= 2 spanned instances.',
        assumptions=['reference model E1 records (start, end) per class instance',
                     'structural invariants are applied only to grammars generated without lookahead values '
                     'in results, Backtrack, or inline Python that rearranges instances'],
    )


def inconclusive(counters, evaluations, tier):
    out = []
    if counters.get('finalize_contract_evaluations', 0) == 0:
        out.append('_finalize_parse_info contract never evaluated')
    if counters.get('structural_trees_checked', 0) == 0:
        out.append('structural invariants evaluated nothing')
    return out


NUM = ('re', '[0-9]+', False)
WORD = ('re', '[a-z]+', False)


class ClassGen:
    def __init__(self, rng, lookahead=False):
        self.rng = rng
        self.lookahead = lookahead

    def grammar(self):
        r = self.rng
        n = r.randint(2, 4)
        names = ['K%d' % i for i in range(n)]
        stmts = []
        stmts.append(('class', 'Num', None, [('field', 'd', NUM)]))
        stmts.append(('class', 'Word', None, [('field', 'w', WORD)]))
        # classes that store no field at all (only pass / let members) still consume input and carry a span
        stmts.append(('class', 'Mark', None, [('pass', ('str', '#'))]))
        stmts.append(('class', 'Tick', None, [('let', 't', ('re', "'+", False)), ('pass', ('opt', ('str', '.')))]))
        leafs = ['Num', 'Word', 'Mark', 'Tick']
        for i, name in enumerate(names):
            later = names[i + 1:] + leafs
            members = []
            opener = r.choice(['(', '[', '<', '{'])
            closer = {'(': ')', '[': ']', '<': '>', '{': '}'}[opener]
            members.append(('field', 'o', ('str', opener)))        # consuming prefix => any class may follow
            for j in range(r.randint(1, 3)):
                members.append(self.member(j, names + leafs, r))
            if r.random() < 0.7:
                members.append(('field', 'c', ('str', closer)))
            stmts.append(('class', name, None, members))
        item_alts = [('ref', x) for x in names + leafs]
        r.shuffle(item_alts)
        if r.random() < 0.5:
            # inline Python that hands on an instance out of its argument: the instance keeps the span
            # it was parsed from (not the span of the enclosing match)
            stmts.append(('rule', 'Unwrap', None, ('apply', ('seq', [('str', '%'), ('ref', 'Item'), ('opt', ('str', '%'))]), ('py', 'lambda xs: xs[1]'))))
            stmts.append(('rule', 'Pick', None, ('lapply', ('py', 'lambda xs: xs[-1] if xs else None'), ('right', ('str', '^'), ('star', ('ref', 'Num'))))))
            item_alts = [('ref', 'Unwrap'), ('ref', 'Pick')] + item_alts
        stmts.append(('rule', 'Item', None, ('alt', item_alts)))
        # abandoned alternatives + memo reuse of the same instance
        stmts.append(('rule', 'Again', None, ('alt', [('seq', [('ref', 'Item'), ('str', '!')]),
                                                      ('seq', [('ref', 'Item'), ('str', '?')]),
                                                      ('ref', 'Item')])))
        forms = [('star', ('ref', 'Again')),
                 ('sep', ('ref', 'Again'), ('str', ','), {'allow_trailer': True, '_op': '/?'}),
                 ('seq', [('opt', ('ref', 'Item')), ('star', ('ref', 'Again'))])]
        if self.lookahead:
            forms.append(('star', ('seq', [('expect', ('ref', 'Item')), ('ref', 'Item')])))
            forms.append(('star', ('right', ('expectnot', ('seq', [('ref', 'Item'), ('str', '!')])), ('ref', 'Item'))))
        if r.random() < 0.35:
            stmts.append(('rule', 'Wrap', ['p'], ('seq', [('str', '<<'), ('ref', 'p'), ('str', '>>')])))
            forms.append(('star', ('alt', [('call', 'Wrap', [('ref', 'Item')]), ('ref', 'Again')])))
        if r.random() < 0.4:
            # classes that take parameters: a parser parameter, and a parser plus a value parameter
            stmts.append(('class', 'Brace', ['p'], [('field', 'o', ('str', '{')), ('field', 'v', ('opt', ('ref', 'p'))), ('field', 'c', ('str', '}'))]))
            stmts.append(('class', 'Tagged', ['p', 't'], [('field', 'v', ('right', ('str', '='), ('ref', 'p'))), ('field', 'tag', ('py', 't'))]))
            forms.append(('star', ('alt', [('call', 'Brace', [('ref', 'Item')]), ('call', 'Tagged', [('ref', 'Item'), ('py', "'k'")]),
                                           ('call', 'Brace', [('call', 'Brace', [('ref', 'Num')])]), ('ref', 'Again')])))
        if r.random() < 0.35:
            stmts.append(('rule', 'Expr', None, ('optable', ('ref', 'Item'), [
                ('postfix', [('str', '!')]), ('prefix', [('str', '-')]), ('left', [('str', '*')]), ('left', [('str', '+')])])))
            forms.append(('star', ('left', ('ref', 'Expr'), ('str', ';'))))
        if r.random() < 0.3:
            # the start rule itself is a class (its span begins where parsing began, before the
            # leading ignorable text)
            stmts.insert(0, ('class', 'start', None, [('field', 'body', r.choice(forms)), ('field', 'tail', ('opt', ('str', '$')))]))
        else:
            stmts.insert(0, ('rule', 'start', None, r.choice(forms)))
        c = r.random()
        if c < 0.3:
            stmts.append(('ignore', ('re', '[ \\n]+', False)))
        elif c < 0.6:
            stmts.append(('ignore', ('re', '\\s+', False)))       # incl. \r \x0b \x0c \x1c-\x1f \x85 \u2028 \u2029
        return dict(name=None, extends=None, stmts=stmts)

    def member(self, j, pool, r):
        kind = r.choice(['ref', 'opt', 'star', 'sep', 'tok', 'alt', 'let', 'pass'])
        name = 'f%d' % j
        ref = lambda: ('ref', r.choice(pool))
        if kind == 'ref':
            return ('field', name, ref())
        if kind == 'opt':
            return ('field', name, ('opt', ref()))
        if kind == 'star':
            return ('field', name, ('star', ref()))
        if kind == 'sep':
            return ('field', name, ('sep', ref(), ('str', ','), {'_op': '//'}))
        if kind == 'tok':
            return ('field', name, r.choice([NUM, WORD, ('str', ':')]))
        if kind == 'alt':
            return ('field', name, ('alt', [('seq', [ref(), ('str', '!')]), ref(), ('str', '~')]))
        if kind == 'let':
            return ('let', 'h%d' % j, ('opt', ('str', ':')))
        return ('pass', ('opt', ('str', ';')))


def count_spanned(v):
    n = 0
    stack = [v]
    while stack:
        x = stack.pop()
        if isinstance(x, tuple) and x and x[0] == 'obj':
            if x[3] is not None:
                n += 1
            stack.extend(val for _, val in x[2])
        elif isinstance(x, (list, tuple)):
            stack.extend(x)
    return n


# -- contract on _finalize_parse_info ---------------------------------------------

def reachable_instances(v):
    out = []
    seen = set()
    stack = [v]
    while stack:
        x = stack.pop()
        if isinstance(x, (list, tuple)):
            stack.extend(x)
        elif isinstance(x, dict):
            stack.extend(x.values())
        elif observe.is_parsed_object(x):
            if id(x) in seen:
                continue
            seen.add(id(x))
            out.append(x)
            stack.extend(getattr(x, f) for f in type(x)._fields)
    return out


def wrap_finalize(g, counter, problems):
    orig = g.__dict__.get('_finalize_parse_info')
    if orig is None:
        return False

    def check(text, nodes, before):
        counter.hit('_finalize_parse_info')
        for inst, raw in before:
            pi = inst._metadata.position_info
            if raw is None:
                if pi:
                    problems.append(('finalize-invented-span', None, repr(pi)[:80]))
                continue
            if not isinstance(raw, tuple) or len(raw) != 2 or not all(isinstance(i, int) for i in raw):
                problems.append(('finalize-input-not-raw', 'pair of ints before finalisation', repr(raw)[:80]))
                continue
            s, e = raw
            if not isinstance(pi, g._PositionInfo) or not isinstance(pi.start, g._Position):
                problems.append(('finalize-not-converted', '_PositionInfo', repr(pi)[:80]))
                continue
            if pi.start.index != s or pi.end.index != e - 1:
                problems.append(('finalize-index', (s, e - 1), (pi.start.index, pi.end.index)))
                continue
            for p in (pi.start, pi.end):
                if 0 <= p.index < len(text) and not (isinstance(text, str) and text[p.index] == '\n'):
                    want = errcheck.line_col(text, p.index)
                    if (p.line, p.column) != want:
                        problems.append(('finalize-line-col', want, (p.index, p.line, p.column)))

    def _finalize_parse_info(text, nodes, pos, fullparse):
        before = [(x, x._metadata.position_info) for x in reachable_instances(nodes)]
        try:
            result = orig(text, nodes, pos, fullparse)
        except g.InputError:
            check(text, nodes, before)
            raise
        check(text, nodes, before)
        contracts._icontract_assert(True, '_finalize_parse_info')
        return result

    g.__dict__['_finalize_parse_info'] = _finalize_parse_info
    return True


def run_one(rec, G, tag, structural, rounds, named=False):
    if not gen.well_formed(G):
        rec.drop()
        return
    if named:
        G = dict(G, name=diff.unique_name('vt_c10'))
    b = diff.build(rec, G)
    if b is None:
        return
    rec.count('descriptions')
    counter = contracts.Counter()
    problems = []
    if not wrap_finalize(b.g, counter, problems):
        rec.note('_finalize_parse_info not found')
    has_ignore = any(s[0] in ('ignore', 'irule') for s in G['stmts'])
    wide = any(s[0] == 'ignore' and s[1] == ('re', '\\s+', False) for s in G['stmts'])
    ign = ' \n\r\x0c\u2028\x0b\x85' if wide else ' \n'
    alpha = work.grammar_alphabet(G, ign if has_ignore else ' \n')
    seeds = [t for t in gen.Sampler(rec.rng, G, ign if has_ignore else '').sentences('start', 60) if len(t) <= 40]
    ins = work.guided_inputs(rec.rng, b.chain, alpha, rounds=rounds, maxlen=40, exhaustive_len=1,
                             seeds=[''] + seeds)
    entries = [e for e in work.rule_entries(G) if e is None or e.startswith('K') or e in ('Item',)][:4]
    desc = b.descs[-1]
    for text in ins:
        for entry in entries:
            for pos in (0, 1, 2):
                if pos > len(text):
                    continue
                r = diff.compare(rec, b, text, entry, pos, True, monitors=('value', 'span'),
                                 extra_case=dict(tag=str(tag)))
                if r is None:
                    continue
                exp, o, model = r
                if exp[0] in ('value', 'partial') and count_spanned(exp[1]) >= 2:
                    rec.nontrivial((desc, entry, text, pos))
                if problems:
                    for p in problems[:3]:
                        rec.violation('contract:%s' % p[0], '_finalize_parse_info contract',
                                      diff.case_dict(b, text, entry, pos, True, tag=str(tag)), p[1], p[2])
                    del problems[:]
                if o.outcome[0] == 'partial':
                    # the same call with fullparse=False returns the partial result as a value: every
                    # span in it is finalised (line / column), also for instances that reach beyond the
                    # place where the match ended (captured by a lookahead, stepped back over)
                    diff.compare(rec, b, text, entry, pos, False, monitors=('value', 'span'),
                                 extra_case=dict(tag=str(tag), fullparse_false=True))
                    rec.count('fullparse_false_calls')
                if structural and o.outcome[0] in ('value', 'partial'):
                    probs = errcheck.check_spans(b.g, text, o.value, structural=True)
                    rec.count('structural_trees_checked')
                    for p in probs[:3]:
                        rec.violation('structure:%s' % p[0], 'structural span invariants',
                                      diff.case_dict(b, text, entry, pos, True, tag=str(tag), structural=True), p[1], p[2])
    rec.count('finalize_contract_evaluations', counter.n.get('_finalize_parse_info', 0))
    rec.sample(dict(description=desc, inputs=len(ins), tag=str(tag)), limit=2)
    b.cleanup()


def run_beyond(rec, quick):
    """Instances that end BEYOND the place where the match ended -- captured by a lookahead whose value
    is kept, or stepped back over by Backtrack -- with both values of fullparse and every offset: their
    spans are finalised like any other (index, line, column)."""
    from . import c08
    for tag, G in c08.curated():
        if 'lookahead-class' not in tag and 'backtrack-class' not in tag:
            continue
        b = diff.build(rec, G)
        if b is None:
            continue
        rec.count('descriptions')
        for text in work.inputs_for('a<>!', 5 if quick else 6):
            for entry in (None,):
                for pos in range(0, len(text) + 1):
                    for fp in (True, False):
                        r = diff.compare(rec, b, text, entry, pos, fp, monitors=('value', 'span'), extra_case=dict(tag='beyond-' + tag))
                        if r is not None and r[0][0] in ('value', 'partial') and count_spanned(r[0][1]) >= 1:
                            rec.nontrivial((tag, text, pos, fp))
                            rec.count('beyond_the_match_trees')
        b.cleanup()


def run_chains(rec):
    """Classes defined by a derived grammar only (the base has none), by the base only, and by both:
    instances parsed through either module carry finalised spans."""
    W = ('re', '[a-z]+', False)
    box = lambda name, o, c: ('class', name, None, [('field', 'o', ('str', o)), ('field', 'w', ('star', ('ref', 'Item'))), ('field', 'c', ('str', c))])
    variants = {
        'derived-only': ([], [box('Box', '[', ']'), ('rule', 'Item', None, ('alt', [('ref', 'Box'), ('super', 'Item')]))]),
        'base-only': ([box('Par', '(', ')'), ('rule', 'Item', None, ('alt', [('ref', 'Par'), ('ref', 'Word')]))],
                      [('rule', 'Word', None, ('re', '[a-z0-9]+', False))]),
        'both': ([box('Par', '(', ')'), ('rule', 'Item', None, ('alt', [('ref', 'Par'), ('ref', 'Word')]))],
                 [box('Box', '[', ']'), ('rule', 'Item', None, ('alt', [('ref', 'Box'), ('super', 'Item')]))]),
    }
    for tag, (base_extra, derived) in sorted(variants.items()):
        for ign in (True, False):
            a, b_ = diff.unique_name('vt_c10a'), diff.unique_name('vt_c10b')
            base = [('rule', 'start', None, ('star', ('ref', 'Item'))), ('rule', 'Word', None, W)]
            if not any(s[1] == 'Item' for s in base_extra):
                base.append(('rule', 'Item', None, ('ref', 'Word')))
            base += base_extra
            if ign:
                base.append(('ignore', ('re', '[ \\n]+', False)))
            GA = dict(name=a, extends=None, stmts=base)
            GB = dict(name=b_, extends=a, stmts=derived)
            b = diff.build(rec, [GA, GB])
            if b is None:
                continue
            rec.count('chain_descriptions')
            texts = ['', 'ab', '[ab]', '[a [b] c]', '(a)', '(a [b (c)])', ' [a]\n[b]', '[a', 'a [ b ] c', '[[]]', '\n\n [ x ]']
            for lvl, g in enumerate(b.modules):
                sub = diff.Built()
                sub.grammars, sub.descs, sub.modules, sub.g, sub.chain, sub.names = b.grammars[:lvl + 1], b.descs[:lvl + 1], b.modules[:lvl + 1], g, b.chain[:lvl + 1], []
                for text in texts:
                    for entry in (None, 'Item'):
                        for pos in (0, 1):
                            if pos > len(text):
                                continue
                            r = diff.compare(rec, sub, text, entry, pos, True, monitors=('value', 'span'), extra_case=dict(tag='chain-' + tag, level=lvl))
                            if r is not None and r[0][0] in ('value', 'partial') and count_spanned(r[0][1]) >= 1:
                                rec.nontrivial((tag, ign, lvl, entry, text, pos))
            b.cleanup()


def metaparser_structure(rec, quick):
    r = observe.compile_grammar(corpus.metagrammar_text())
    if r[0] != 'ok':
        return
    g = r[1]
    counter = contracts.Counter()
    problems = []
    wrap_finalize(g, counter, problems)
    for origin, d in corpus.repository_descriptions():
        for pos in (0,):
            o = observe.observe(g, d, None, pos)
            rec.case()
            if o.outcome[0] in ('value', 'partial'):
                rec.nontrivial(('meta', d))
                probs = errcheck.check_spans(g, d, o.value, structural=True)
                rec.count('structural_trees_checked')
                rec.count('metaparser_trees_checked')
                for p in probs[:3] + [('contract:' + q[0], q[1], q[2]) for q in problems[:3]]:
                    rec.violation('structure:%s' % p[0], 'structural span invariants (metaparser)',
                                  dict(kind='meta-span', origin=origin, text_repr=repr(d)), p[1], p[2])
                del problems[:]
    rec.count('finalize_contract_evaluations', counter.n.get('_finalize_parse_info', 0))


def run_shard(rec):
    quick = rec.tier == 'quick'
    rec.deadline = time.time() + (300 if quick else 900)
    n = 30 if quick else 700
    for i in range(n):
        if rec.out_of_time():
            rec.count('cut_by_time')
            break
        look = (i % 4 == 3)
        G = ClassGen(rec.rng, lookahead=look).grammar()
        run_one(rec, G, ('classes', 'lookahead' if look else 'plain'), structural=not look,
                rounds=120 if quick else 500, named=(i % 5 == 2))
    if rec.shard == 0:
        metaparser_structure(rec, quick)
    if rec.shard == 1:
        run_chains(rec)
    if rec.shard == 2:
        run_beyond(rec, quick)


def replay(rec, rep):
    import ast
    case = rep['case']
    if case.get('kind') == 'meta-span':
        return metaparser_structure(rec, True)
    b = diff.rebuild_from_case(rec, case)
    if b is None:
        return
    counter = contracts.Counter()
    problems = []
    wrap_finalize(b.g, counter, problems)
    text = ast.literal_eval(case['text_repr'])
    r = diff.compare(rec, b, text, case.get('entry'), case.get('pos', 0), True, monitors=('value', 'span'))
    for p in problems[:3]:
        rec.violation('contract:%s' % p[0], '_finalize_parse_info contract', case, p[1], p[2])
    if case.get('structural') and r is not None and r[1].outcome[0] in ('value', 'partial'):
        for p in errcheck.check_spans(b.g, text, r[1].value, structural=True)[:3]:
            rec.violation('structure:%s' % p[0], 'structural span invariants', case, p[1], p[2])
    b.cleanup()
