"""C18 -- parse calls are isolated from each other.

Oracle everywhere: the outcome of a call must equal the outcome of the identical
call on a freshly compiled module (baseline), whatever the history, schedule or
re-entrant nesting.

(a) history differential   random call sequences on 1-3 long-lived modules with hostile
                           collisions (equal-length texts, same text at other pos, other entry
                           rules, calls abandoned because user code raised)
(b) schedule stress        2-8 threads on the same module objects, tiny switch interval and
                           LINE-event yield injection inside emitted code; overlap is measured
(c) re-entrancy            a callback reachable from inline Python starts a nested parse at the
                           k-th callback point, for every k
(d) leak monitor           results are dropped and must die (a module-level memo keeps them alive)
(e) state fingerprint      module globals / defaults / closure cells before and after (evidence)
(f) concurrent Grammar()   constructions (new names, extending, re-using the name) while the
                           module is in use
"""
import gc
import hashlib
import random
import sys
import threading
import time
import types
import weakref

from .. import gast, gen, diff, work, observe, refpeg

ID = 'C18'

HOOKED = r'''
```
def cb(tag, value):
    h = globals().get('_vt_cb')
    return h(tag, value) if h is not None else value
```
ignore /[ \n]+/
start = Stmt /? ";"
class Stmt { name: Word << "="; value: Expr }
Expr = Term between {
    prefix: "-"
    left: "*"
    left: "+"
}
Term = Num | Call | Word | ("(" >> Expr << ")")
class Call { f: Word << "("; args: (Expr // ",") << ")" }
Num = /\d+/ |> `lambda v: cb('num', int(v))`
Word = /[a-z]+/ |> `lambda v: cb('word', v)`
'''

MEMO_HEAVY = r'''
start = E
E = [T, "+", E] | [T, "-", E] | T
T = ["(", E, ")"] | X
class X { v: /[xy]/ }
'''

BYTES_G = r'''
start = (Rec << 0x0A)*
class Rec { tag: b/[a-z]+/; eq: b"="; val: b/[0-9]*/ }
'''


def plan(tier, seed):
    return dict(
        shards=16,
        rule='three long-lived modules (a hooked statement grammar with ignore/classes/operator table/inline '
             'Python, a memo-heavy PEG, a bytes grammar) plus seeded random grammars; (a) random call '
             'histories of 500 (quick) / 3500 (thorough) calls per shard mixing texts of equal length, shifted copies, '
             'pos > 0, fullparse False, other entry rules and calls abandoned by a raising callback; (b) '
             '2-8 threads x the same modules under sys.setswitchinterval(1e-6) and seeded sleep(0) injection '
             'at LINE events of emitted code; (c) nested parse at every callback point k; (d) weakref leak '
             'monitor; (f) Grammar() constructions interleaved.  Baseline = identical call on a freshly '
             'compiled module.  One evaluation = one call compared with its baseline.  Non-trivial = '
             'distinct (mode, call) made after >= 1 earlier call on the same module object, or while another '
             'parse was in flight.',
        assumptions=['CPython with the GIL; interleavings are sampled, overlap is measured not assumed',
                     'callbacks of the harness are thread-safe and pure apart from the controlled raise / '
                     're-entry'],
    )


def inconclusive(counters, evaluations, tier):
    out = []
    if counters.get('overlapping_switches', 0) == 0:
        out.append('schedule stress: no thread switch observed while >= 2 parses were in flight')
    if counters.get('reentrant_nested_parses', 0) == 0:
        out.append('re-entrancy: no nested parse started')
    if counters.get('history_calls', 0) == 0:
        out.append('history differential evaluated nothing')
    if counters.get('leak_checks', 0) == 0:
        out.append('leak monitor evaluated nothing')
    return out


class Boom(Exception):
    pass


# -- texts ------------------------------------------------------------------------

def hooked_texts(rng, n):
    words = ['a', 'b', 'ab', 'foo', 'x']
    out = []
    for _ in range(n):
        def expr(d):
            c = rng.random()
            if d <= 0 or c < 0.35:
                return rng.choice([str(rng.randint(0, 99)), rng.choice(words)])
            if c < 0.55:
                return '%s%s%s' % (expr(d - 1), rng.choice([' + ', '*', '+']), expr(d - 1))
            if c < 0.7:
                return '(%s)' % expr(d - 1)
            if c < 0.85:
                return '%s(%s)' % (rng.choice(words), ', '.join(expr(d - 1) for _ in range(rng.randint(0, 2))))
            return '-' + expr(d - 1)
        stmts = ['%s = %s' % (rng.choice(words), expr(rng.randint(0, 3))) for _ in range(rng.randint(1, 3))]
        t = rng.choice(['; ', ';\n', '\n;  ']).join(stmts) + rng.choice(['', ';', ' ', '\n'])
        if rng.random() < 0.5:
            t = t.replace(' ', '\n', 1) if rng.random() < 0.5 else t[::-1].replace(' ', '\n', 1)[::-1]
        if rng.random() < 0.25:
            k = rng.randrange(len(t) + 1)
            t = t[:k] + rng.choice('?=)(') + t[k:]          # broken inputs
        out.append(t)
    # hostile collisions: same length, different content; shifted copies
    more = []
    for t in out[:n // 3]:
        if t:
            k = rng.randrange(len(t))
            more.append(t[:k] + ('9' if t[k] != '9' else '8') + t[k + 1:])
            more.append(' ' + t)
    # same length, different newline layout (a space and a newline swapped)
    for t in out[:n // 2]:
        i, j = t.find(' '), t.find('\n')
        if i >= 0:
            more.append(t[:i] + '\n' + t[i + 1:])
        if j >= 0:
            more.append(t[:j] + ' ' + t[j + 1:])
        if i >= 0 and j >= 0:
            u = list(t)
            u[i], u[j] = u[j], u[i]
            more.append(''.join(u))
    return out + more


def memo_texts(rng, n):
    out = []
    for _ in range(n):
        d = rng.randint(0, 6)
        t = '(' * d + rng.choice('xy') + ')' * d
        for _ in range(rng.randint(0, 2)):
            t += rng.choice('+-') + rng.choice('xy')
        if rng.random() < 0.2:
            t = t[:-1]
        out.append(t)
    more = [t.replace('x', 'y', 1) for t in out[:n // 2]]
    return out + more


def bytes_texts(rng, n):
    out = []
    for _ in range(n):
        recs = []
        for _ in range(rng.randint(0, 3)):
            recs.append(b'%s=%d\n' % (rng.choice([b'a', b'key', b'zz']), rng.randint(0, 999)))
        t = b''.join(recs)
        if rng.random() < 0.2:
            t += b'bad'
        out.append(t)
    return out


class Target:
    """One grammar under test: description, long-lived module, call pool, baseline."""

    def __init__(self, desc, texts, entries, name):
        self.desc = desc
        self.name = name
        self.g = self.fresh()
        self.calls = []
        rng = random.Random(len(desc))
        for t in texts:
            self.calls.append((None, t, 0, True))
            if len(t) > 2 and rng.random() < 0.3:
                self.calls.append((None, t, rng.randint(1, 2), True))
            if rng.random() < 0.2:
                self.calls.append((None, t, 0, False))
            if entries and rng.random() < 0.3:
                self.calls.append((rng.choice(entries), t, 0, True))
        self.baseline = {}

    def fresh(self):
        r = observe.compile_grammar(self.desc)
        if r[0] != 'ok':
            raise RuntimeError('C18 target grammar does not compile: %r' % (r,))
        return r[1]

    def base(self, call):
        """Outcome of the call on a freshly compiled module (computed once per distinct call)."""
        key = repr(call)
        if key not in self.baseline:
            g = self.fresh()
            self.baseline[key] = outcome(g, call)
        return self.baseline[key]


FAMILY_BASE = '''grammar {A}
ignore / +/
start = (Wrap(Item) | Item)*
Wrap(p) = ["<", p, ">"]
Item = "a" | "b"
'''
FAMILY_EXT = '''grammar {B} extends {A}
Wrap(p) = ["{{", p, "}}"] | super.Wrap(p)
Item = "c" | super.Item
'''


class FamilyTarget(Target):
    """A named base grammar and an extension of it, both long-lived and both used: compiling and
    using the extension must not alter the base, and vice versa.  Baseline = the same call on a
    freshly compiled family under fresh names."""

    def __init__(self, which, texts, shared=None):
        self.which = which
        self.name = 'family-' + which
        self.desc = FAMILY_BASE + '||' + FAMILY_EXT
        if shared is None:
            shared = self.compile_family()
        self.family = shared
        self.g = shared[0] if which == 'base' else shared[1]
        self.calls = [(None, t, 0, True) for t in texts] + [(None, t, 1, False) for t in texts[:6] if len(t) > 1]
        # rule-level entry points of inherited / overridden rules
        self.calls += [('start', t, 0, True) for t in texts[:12]] + [('Item', t, 0, False) for t in ('a', 'c', ' c', 'b a', '')]
        self.baseline = {}

    @staticmethod
    def compile_family():
        a, b = diff.unique_name('vt_c18a'), diff.unique_name('vt_c18b')
        r1 = observe.compile_grammar(FAMILY_BASE.format(A=a))
        r2 = observe.compile_grammar(FAMILY_EXT.format(A=a, B=b))
        sys.modules.pop(a, None)
        sys.modules.pop(b, None)
        if r1[0] != 'ok' or r2[0] != 'ok':
            raise RuntimeError('C18 family does not compile: %r %r' % (r1, r2))
        return r1[1], r2[1]

    def fresh(self):
        if self.which == 'base':
            # the base alone: no extension of this module is ever created
            a = diff.unique_name('vt_c18a')
            r1 = observe.compile_grammar(FAMILY_BASE.format(A=a))
            sys.modules.pop(a, None)
            return r1[1]
        return self.compile_family()[1]


def family_texts(rng, n):
    toks = ['a', 'b', 'c', '<a>', '<c>', '{a}', '{c}', '{ b }', '< b >', ' ']
    out = []
    for _ in range(n):
        out.append(''.join(rng.choice(toks) for _ in range(rng.randint(0, 5))))
    return out


def outcome(g, call):
    """Everything a caller can observe: normalised value, error class, position (index, line,
    column), message text, and line/column of every span in the result."""
    entry, text, pos, fp = call
    o = observe.observe(g, text, entry, pos, fp, guard=False)
    extra = None
    if o.exc is not None and o.outcome[0] in ('error', 'partial'):
        try:
            p = o.exc.position if o.outcome[0] == 'error' else o.exc.last_position
            extra = (p.index, p.line, p.column, str(o.exc))
        except Exception:
            extra = 'unreadable'
    spans = None
    if o.value is not None:
        spans = span_details(o.value)
    return (o.outcome, extra, spans)


def span_details(v):
    out = []
    seen = set()
    stack = [v]
    while stack and len(out) < 400:
        x = stack.pop()
        if isinstance(x, (list, tuple)):
            stack.extend(x)
        elif observe.is_parsed_object(x):
            if id(x) in seen:
                continue
            seen.add(id(x))
            pi = x._metadata.position_info
            if pi:
                try:
                    out.append((tuple(pi.start), tuple(pi.end)))
                except Exception:
                    out.append(repr(pi)[:60])
            stack.extend(getattr(x, f) for f in type(x)._fields)
    return tuple(out)


# values created by inline Python during a parse (list / dict / set displays, constructor calls) and
# mutated by later inline Python of the same parse: each evaluation must get its own object
STATEFUL = '''
start = (Defs | Coll | Tally | Uniq)*
Defs = "def" >> (let names = `{}` in DefBody(names))
DefBody(tbl) = [(Word |> `lambda w: tbl.setdefault(w, tbl.__len__())`)+, ";" >> `sorted(tbl.items())`]
Coll = "col" >> Collect(`[]`)
Collect(acc) = [(Word |> `lambda w: acc.append(w)`)*, ";" >> `tuple(acc)`]
Tally = "tal" >> (let box = `[0]` in [(Word |> `lambda w: box.__setitem__(0, box[0] + 1)`)*, ";" >> `box[0]`])
Uniq = "unq" >> (let seen = `set()` in [(Word where `lambda w: w not in seen and not seen.add(w)`)*, ";"])
Word = /[a-z]/
ignore / +/
'''


def stateful_texts(rng, n):
    heads = ['def', 'col', 'tal', 'unq']
    out = []
    for _ in range(n):
        parts = []
        for _ in range(rng.randint(1, 3)):
            parts.append('%s %s %s' % (rng.choice(heads), ' '.join(rng.choice('abc') for _ in range(rng.randint(0, 4))), rng.choice([';', ';', ';', ''])))
        out.append(' '.join(parts))
    return out


def targets(rec, quick):
    rng = rec.rng
    n = 40 if quick else 150
    ts = [Target(HOOKED, hooked_texts(rng, n), ['Expr', 'Stmt', 'Term'], 'hooked'),
          Target(MEMO_HEAVY, memo_texts(rng, n), ['E', 'T'], 'memo'),
          Target(BYTES_G, bytes_texts(rng, n // 2), ['Rec'], 'bytes'),
          Target(STATEFUL, stateful_texts(rng, n), ['Defs', 'Coll'], 'stateful')]
    ft = family_texts(rng, 30 if quick else 100)
    base_t = FamilyTarget('base', ft)
    ts.append(base_t)
    ts.append(FamilyTarget('ext', ft, shared=base_t.family))
    for i in range(2 if quick else 6):
        G = gen.RandomGrammar(rng, maxdepth=rng.randint(2, 4)).grammar()
        if gen.well_formed(G):
            ts.append(Target(gast.render_grammar(G), work.inputs_for('abA', 4)[::3],
                             [s[1] for s in G['stmts'] if s[0] == 'rule' and s[1] != 'start'][:2], 'random%d' % i))
    return ts


def case_of(t, call, mode, **extra):
    d = dict(kind='c18', mode=mode, target=t.name, desc=t.desc, entry=call[0], text_repr=repr(call[1]),
             pos=call[2], fullparse=call[3])
    d.update(extra)
    return d


def compare(rec, t, call, got, mode, nontrivial=True, **extra):
    want = t.base(call)
    rec.case()
    if nontrivial:
        rec.nontrivial((mode, t.name, repr(call)))
    if not observe.same_outcome(want, got):
        rec.violation('%s:%s->%s' % (mode, observe.outcome_class(want[0]), observe.outcome_class(got[0])),
                      'outcome vs fresh-module baseline (%s)' % mode, case_of(t, call, mode, **extra), want, got)
        return False
    return True


# -- (e) state fingerprint ------------------------------------------------------------

def fingerprint(g):
    h = hashlib.sha1()
    items = []
    for k, v in sorted(vars(g).items()):
        if k in ('_vt_cb', '__builtins__'):
            continue
        if isinstance(v, types.FunctionType):
            d = v.__defaults__
            cells = [c.cell_contents for c in (v.__closure__ or ()) if _has_contents(c)]
            items.append((k, 'fn', _stable(d), _stable(cells), _stable(vars(v))))
        elif isinstance(v, type):
            items.append((k, 'cls', sorted((a, _stable(b)) for a, b in vars(v).items()
                                           if not isinstance(b, (types.FunctionType, staticmethod, classmethod, property))
                                           and a not in ('__dict__', '__weakref__', '__doc__', '__module__'))))
        elif isinstance(v, (dict, list, set)):
            items.append((k, 'container', len(v), _stable(v)))
        elif hasattr(v, '__dict__') and not isinstance(v, types.ModuleType):
            items.append((k, 'obj', _stable(vars(v))))
    h.update(repr(items).encode('utf-8', 'replace'))
    return h.hexdigest()


def _has_contents(c):
    try:
        c.cell_contents
        return True
    except ValueError:
        return False


def _stable(v, depth=2):
    if depth <= 0:
        return type(v).__name__
    if isinstance(v, dict):
        return sorted((repr(k)[:40], _stable(x, depth - 1)) for k, x in v.items())[:50]
    if isinstance(v, (list, tuple, set, frozenset)):
        return [_stable(x, depth - 1) for x in list(v)[:50]]
    if isinstance(v, (str, bytes, int, float, bool, type(None))):
        return repr(v)[:60]
    return type(v).__name__


# -- (a) history differential -----------------------------------------------------------

def history(rec, ts, length):
    rng = rec.rng
    fps = {t.name: fingerprint(t.g) for t in ts}
    raised = 0
    excerpt = []
    for step in range(length):
        t = rng.choice(ts)
        call = rng.choice(t.calls)
        mode = 'history'
        if t.name == 'hooked' and rng.random() < 0.2:
            # abandon this call in the middle: the k-th callback raises
            k = rng.randint(1, 4)
            state = {'n': 0}

            def cb(tag, value, state=state, k=k):
                state['n'] += 1
                if state['n'] == k:
                    raise Boom()
                return value

            t.g._vt_cb = cb
            try:
                o = observe.observe(t.g, call[1], call[0], call[2], call[3], guard=False)
                if o.outcome[0] == 'other' and o.outcome[1] == 'Boom':
                    raised += 1
                    rec.count('history_calls_abandoned')
            finally:
                t.g._vt_cb = None
            continue
        if rng.random() < 0.5 and len(call[1]) > 0:
            # a freshly created text object that is dropped right after the call (the long-lived
            # texts of t.calls never give their address back): caches keyed by id() show here
            fresh_text = (call[1] + call[1][:1])[:-1]
            got = outcome(t.g, (call[0], fresh_text, call[2], call[3]))
            del fresh_text
            rec.count('history_calls_on_fresh_text_objects')
        else:
            got = outcome(t.g, call)
        rec.count('history_calls')
        compare(rec, t, call, got, mode, nontrivial=step > 0, step=step)
        if step < 6:
            excerpt.append(dict(step=step, module=t.name, call=repr(call)[:120], outcome=observe.outcome_class(got[0])))
    rec.sample(dict(history_excerpt=excerpt), limit=1)
    for t in ts:
        fp = fingerprint(t.g)
        rec.count('fingerprints_taken')
        if fp != fps[t.name]:
            rec.count('module_state_changed:' + t.name)


def churn(rec, ts):
    """Texts of equal length and different content / newline layout, each created, parsed and dropped
    in turn in a tight loop, so that consecutive texts are likely to occupy the same address: any
    per-module cache keyed by id(text) and/or len(text) answers with the previous text's data."""
    for t in ts[:3]:
        groups = {}
        for call in t.calls:
            if call[2] == 0 and call[3] is True and call[0] is None and len(call[1]) > 2:
                groups.setdefault(len(call[1]), [])
                if call not in groups[len(call[1])]:
                    groups[len(call[1])].append(call)
        for ln, calls in sorted(groups.items()):
            if len(calls) < 2:
                continue
            for c in calls:
                t.base(c)
            for _ in range(3):
                for c in calls:
                    fresh_text = (c[1] + c[1][:1])[:-1]
                    got = outcome(t.g, (c[0], fresh_text, c[2], c[3]))
                    del fresh_text
                    rec.count('churn_calls')
                    compare(rec, t, c, got, 'churn', nontrivial=True)
                    del got


# -- (d) leak monitor ---------------------------------------------------------------------

def leaks(rec, ts):
    for t in ts:
        for call in t.calls[:25]:
            entry, text, pos, fp = call
            try:
                v = observe.parse_fn(t.g, entry)(text, pos, fp)
            except Exception:
                continue
            refs = []
            stack = [v]
            while stack and len(refs) < 20:
                x = stack.pop()
                if isinstance(x, (list, tuple)):
                    stack.extend(x)
                elif observe.is_parsed_object(x):
                    refs.append(weakref.ref(x))
                    stack.extend(getattr(x, f) for f in type(x)._fields)
            if not refs:
                continue
            del v, x, stack
            gc.collect()
            rec.case()
            rec.count('leak_checks')
            alive = sum(1 for r in refs if r() is not None)
            if alive:
                rec.violation('leak:results-kept-alive', 'weakref leak monitor', case_of(t, call, 'leak'),
                              'result objects die once dropped', '%d of %d still alive' % (alive, len(refs)))


# -- (c) re-entrancy ------------------------------------------------------------------------

def reentrancy(rec, ts, ncalls):
    hooked = ts[0]
    others = ts[1:]
    rng = rec.rng
    for call in rng.sample(hooked.calls, min(ncalls, len(hooked.calls))):
        # how many callback points does this call have?
        count = {'n': 0}

        def counting(tag, value):
            count['n'] += 1
            return value

        hooked.g._vt_cb = counting
        try:
            outcome(hooked.g, call)
        finally:
            hooked.g._vt_cb = None
        for k in range(1, min(count['n'], 12) + 1):
            state = {'n': 0, 'inner': None}
            inner_t = rng.choice([hooked, hooked] + others)
            inner_call = rng.choice(inner_t.calls)

            def cb(tag, value, state=state, k=k):
                state['n'] += 1
                if state['n'] == k:
                    hooked.g._vt_cb = None          # the nested parse runs without the hook
                    try:
                        state['inner'] = outcome(inner_t.g, inner_call)
                    finally:
                        hooked.g._vt_cb = cb
                return value

            hooked.g._vt_cb = cb
            try:
                got = outcome(hooked.g, call)
            finally:
                hooked.g._vt_cb = None
            rec.count('reentrant_outer_parses')
            compare(rec, hooked, call, got, 'reentrant-outer', k=k, inner=repr(inner_call)[:120])
            if state['inner'] is not None:
                rec.count('reentrant_nested_parses')
                compare(rec, inner_t, inner_call, state['inner'], 'reentrant-inner', k=k, outer=repr(call)[:120])


# -- (c2) results of nested parses embedded in the outer result -----------------------------------

ISLAND_OUTER = '''
start = Doc
class Doc {
    head: Word
    parts: Part*
    tail: Word?
}
class Part {
    open: "{"
    body: /[^}]*/ |> `sub`
    close: "}"
}
Word = /[a-z]+/
ignore /[ \\n]+/
'''
ISLAND_INNER = '''
start = Item*
class Item {
    key: /[a-z]+/
    eq: "="
    val: Val
}
class Val {
    digits: /[0-9]+/
}
ignore /[ \\n]+/
'''


def embedding(rec):
    """An inline-Python callback parses a piece of the input with another module (or re-enters the
    same module) and returns the resulting tree, which becomes part of the outer result.  Oracle: the
    outer parse with an opaque callback, each hole then filled with the result of the same nested call
    made on its own -- values and spans (the nested spans refer to the nested text)."""
    r1 = observe.compile_grammar(ISLAND_OUTER)
    r2 = observe.compile_grammar(ISLAND_INNER)
    if r1[0] != 'ok' or r2[0] != 'ok':
        rec.violation('embedding:grammar-error', 'Grammar() of the island grammars', dict(kind='c18', mode='embedding'), 'modules', (r1[:2], r2[:2]))
        return
    outer, inner = r1[1], r2[1]
    rng = rec.rng
    nested = {
        'other-module': lambda s: inner.parse(s),
        'other-module-rule': lambda s: inner.Item.parse(s, fullparse=False),
        'same-module': lambda s: outer.Doc.parse('w ' + s.replace('=', ' ')) if '{' not in s else None,
        'same-module-list': lambda s: [outer.Word.parse(s.strip() or 'z', fullparse=False), outer.Doc.parse('q')],
    }
    bodies = ['a=1', 'a=1 b=22', '', 'k=3\nm=4', 'x = 5 ', 'a=1 b=2 c=3']
    for mode, fn in sorted(nested.items()):
        for _ in range(12):
            text = rng.choice(['h', 'doc ', 'h\n']) + ''.join('{%s}%s' % (rng.choice(bodies), rng.choice(['', ' ', '\n']))
                                                              for _ in range(rng.randint(1, 3))) + rng.choice(['', 't'])
            holes = []

            def opaque(s, holes=holes):
                holes.append(s)
                return ('HOLE', len(holes) - 1)

            outer.sub = opaque
            skeleton = observe.observe(outer, text, guard=False).outcome
            fills = []
            ok = True
            for s in holes:
                try:
                    fills.append(observe.norm_real(fn(s)))
                except Exception as e:
                    ok = False
                    break
            if not ok or skeleton[0] != 'value':
                rec.drop()
                continue

            def fill(v):
                if isinstance(v, tuple) and len(v) == 2 and v[0] == 'HOLE':
                    return fills[v[1]]
                if isinstance(v, tuple) and v and v[0] == 'obj':
                    return ('obj', v[1], tuple((f, fill(x)) for f, x in v[2]), v[3])
                if isinstance(v, list):
                    return [fill(x) for x in v]
                if isinstance(v, tuple):
                    return tuple(fill(x) for x in v)
                return v

            want = ('value', fill(skeleton[1]))
            outer.sub = fn
            got = observe.observe(outer, text, guard=False).outcome
            rec.case()
            rec.count('embedded_nested_results')
            rec.nontrivial(('embedding', mode, text))
            if not observe.same_outcome(want, got):
                rec.violation('embedding:%s->%s' % (observe.outcome_class(want), observe.outcome_class(got)),
                              'outer result with nested results embedded vs. skeleton + stand-alone nested calls',
                              dict(kind='c18', mode='embedding', nested=mode, text_repr=repr(text), desc=ISLAND_OUTER + '||' + ISLAND_INNER),
                              observe.short(want, 300), observe.short(got, 300))


# -- (c3) a later Grammar() re-uses the name of a live module ---------------------------------------

REUSE_OTHER = '''grammar {A}
start = Item+
Item = "x" | "y"
Word = /[xy]+/
'''


def name_reuse(rec):
    """A base and its extension are in use; then another description is compiled under the base's
    name (and one under the extension's).  The existing module objects -- module-level parse, their
    own rules and the rules / classes the extension inherited -- answer as before.  Flat and dotted
    names (a dotted module is also an attribute of its package)."""
    texts = ['a', 'c', 'a b', '<a>', '{c}', 'x', 'xy', '', 'a c', '< b >']
    for dotted in (False, True):
        uid = diff.unique_name('vt_c18r')
        a, b = ('%s_pkg.core' % uid, '%s_pkg.ext' % uid) if dotted else (uid + '_core', uid + '_ext')
        try:
            ra = observe.compile_grammar(FAMILY_BASE.format(A=a) + 'Word = /[ab]+/\nclass Pt {{ x: Item; y: Item? }}\n'.format())
            rb = observe.compile_grammar(FAMILY_EXT.format(A=a, B=b))
            if ra[0] != 'ok' or rb[0] != 'ok':
                rec.violation('name-reuse:grammar-error', 'Grammar() of the family', dict(kind='c18', mode='name-reuse', dotted=dotted), 'modules', (ra[:2], rb[:2]))
                continue
            ga, gb = ra[1], rb[1]
            calls = [(g, e, t) for g, es in ((ga, (None, 'Item', 'Word', 'Pt')), (gb, (None, 'Item', 'start', 'Word', 'Pt'))) for e in es for t in texts]
            before = [outcome(g, (e, t, 0, True)) for g, e, t in calls]
            steps = [('grammar named like a rule of the base', 'grammar %s.Item\nstart = "o"*\n' % a),
                     ('grammar named like a class of the base', 'grammar %s.Pt\nstart = "o"*\n' % a),
                     ('grammar named like an inherited rule of the extension', 'grammar %s.Word\nstart = "o"*\n' % b),
                     # ... and names that pass THROUGH a rule / class name two or more components deeper (the
                     # packages in between are placeholders made on the way)
                     ('grammar two levels below a rule name of the extension', 'grammar %s.Item.deep.leaf\nstart = "o"*\n' % b),
                     ('grammar one level below a rule name nobody has used yet', 'grammar %s.Word.sub\nstart = "o"*\n' % a),
                     ('base name re-used', REUSE_OTHER.format(A=a)),
                     ('extension name re-used', 'grammar %s\nstart = "q"*\nItem = "q"\n' % b),
                     ('base name re-used by an extension of the old extension name', 'grammar %s extends %s\nItem = "z"\n' % (a, b))]
            # (the first three: grammars whose dotted name is <existing grammar>.<one of its rules / classes>
            # -- the new module must not take the place of that rule in the existing module)
            for what, d in steps:
                r = observe.compile_grammar(d)
                rec.count('names_reused')
                for (g, e, t), want in zip(calls, before):
                    got = outcome(g, (e, t, 0, True))
                    rec.case()
                    rec.nontrivial(('name-reuse', dotted, what, g is gb, e, t))
                    if not observe.same_outcome(want, got):
                        rec.violation('name-reuse:%s->%s' % (observe.outcome_class(want[0]), observe.outcome_class(got[0])),
                                      'existing module after its name (or its parent\'s name) was re-used vs. before',
                                      dict(kind='c18', mode='name-reuse', dotted=dotted, step=what, module='extension' if g is gb else 'base',
                                           entry=e, text_repr=repr(t)), want, got)
        finally:
            for n in (a, b, a.rsplit('.', 1)[0], a + '.Item', a + '.Pt', b + '.Word', b + '.Item', b + '.Item.deep', b + '.Item.deep.leaf',
                      a + '.Word', a + '.Word.sub'):
                sys.modules.pop(n, None)


# -- (b) schedule stress ------------------------------------------------------------------------

TOOL_YIELD = 1


class YieldInjector:
    """LINE events on the code objects of the modules under test: with seeded probability the
    running thread gives up the GIL (sleep(0)); counts switches seen while >= 2 parses are in
    flight and digests the observed thread sequence."""

    def __init__(self, modules, prob, seed):
        self.codes = set()
        for m in modules:
            for v in vars(m).values():
                if isinstance(v, types.FunctionType) and v.__globals__ is m.__dict__:
                    self.codes.add(v.__code__)
                elif isinstance(v, type):
                    for a in vars(v).values():
                        f = getattr(a, '__func__', a)
                        if isinstance(f, types.FunctionType) and f.__globals__ is m.__dict__:
                            self.codes.add(f.__code__)
        self.prob = prob
        self.local = threading.local()
        self.seed = seed
        self.in_flight = 0
        self.lock = threading.Lock()
        self.last_thread = None
        self.switches = 0
        self.overlap_switches = 0
        self.events = 0
        self.sequence = hashlib.sha1()
        self.saved = []
        self.modules = modules

    def rng(self):
        r = getattr(self.local, 'rng', None)
        if r is None:
            r = self.local.rng = random.Random(self.seed * 7919 + threading.get_ident() % 1000003)
        return r

    def on_line(self, code, line):
        self.events += 1
        tid = threading.get_ident()
        if tid != self.last_thread:
            self.last_thread = tid
            self.switches += 1
            if self.in_flight >= 2:
                self.overlap_switches += 1
                self.sequence.update(b'%d:%d;' % (tid % 997, line))
        if self.rng().random() < self.prob:
            time.sleep(0)

    def wrap_run(self, module):
        orig = module.__dict__.get('_run')
        if orig is None:
            return
        inj = self

        def _run(*a, **kw):
            with inj.lock:
                inj.in_flight += 1
            try:
                return orig(*a, **kw)
            finally:
                with inj.lock:
                    inj.in_flight -= 1
        self.saved.append((module, orig))
        module.__dict__['_run'] = _run

    def start(self):
        mon = sys.monitoring
        try:
            mon.use_tool_id(TOOL_YIELD, 'verif-yield')
        except ValueError:
            pass
        for m in self.modules:
            self.wrap_run(m)
        mon.register_callback(TOOL_YIELD, mon.events.LINE, self.on_line)
        for co in self.codes:
            mon.set_local_events(TOOL_YIELD, co, mon.events.LINE)

    def stop(self):
        mon = sys.monitoring
        for co in self.codes:
            try:
                mon.set_local_events(TOOL_YIELD, co, 0)
            except Exception:
                pass
        mon.register_callback(TOOL_YIELD, mon.events.LINE, None)
        for module, orig in self.saved:
            module.__dict__['_run'] = orig
        try:
            mon.free_tool_id(TOOL_YIELD)
        except Exception:
            pass


def schedule(rec, ts, nthreads, per_thread, prob, with_grammar_thread):
    # baselines are computed sequentially, before any thread starts
    plans = []
    rng = rec.rng
    for i in range(nthreads):
        plan_ = []
        for _ in range(per_thread):
            t = rng.choice(ts)
            call = rng.choice(t.calls)
            t.base(call)
            plan_.append((t, call))
        plans.append(plan_)
    if with_grammar_thread:
        for t in ts[:2]:
            for k in range(1, 13):
                for call in t.calls[k % 5::9][:4]:
                    t.base(call)
    inj = YieldInjector([t.g for t in ts], prob, rec.seed + nthreads)
    results = [[] for _ in range(nthreads)]
    built_results = []
    errors = []
    barrier = threading.Barrier(nthreads + (1 if with_grammar_thread else 0))
    stop_flag = {'stop': False}

    def worker(i):
        try:
            barrier.wait(timeout=60)
            for t, call in plans[i]:
                results[i].append(outcome(t.g, call))
        except BaseException as e:
            errors.append('%s: %s' % (type(e).__name__, str(e)[:200]))

    def grammar_thread():
        # (f) constructions while the modules are in use: a new name, an extension of a live named
        # module, and re-use of that name
        try:
            barrier.wait(timeout=60)
            base_name = diff.unique_name('vt_c18')
            k = 0
            while not stop_flag['stop'] and k < 12:
                k += 1
                observe.compile_grammar('grammar %s\nstart = "a" | "b"\nignore " "' % base_name)
                observe.compile_grammar('grammar %s_x extends %s\nstart = "c" | super.start' % (base_name, base_name))
                for t in ts[:2]:
                    # a module built while others parse (and while other grammars are being built)
                    # must answer like one built in isolation
                    r = observe.compile_grammar(t.desc)
                    if r[0] != 'ok':
                        built_results.append((t, None, ('compile', r)))
                        continue
                    for call in t.calls[k % 5::9][:4]:
                        built_results.append((t, call, outcome(r[1], call)))
                rec.count('grammars_built_concurrently', 4)
            for n in (base_name, base_name + '_x'):
                sys.modules.pop(n, None)
        except BaseException as e:
            errors.append('grammar thread %s: %s' % (type(e).__name__, str(e)[:200]))

    threads = [threading.Thread(target=worker, args=(i,)) for i in range(nthreads)]
    if with_grammar_thread:
        threads.append(threading.Thread(target=grammar_thread))
    old = sys.getswitchinterval()
    sys.setswitchinterval(1e-6)
    inj.start()
    try:
        for th in threads:
            th.start()
        for th in threads[:nthreads]:
            th.join(timeout=600)
        stop_flag['stop'] = True
        for th in threads[nthreads:]:
            th.join(timeout=600)
    finally:
        inj.stop()
        sys.setswitchinterval(old)
    rec.count('line_events', inj.events)
    rec.count('thread_switches_in_emitted_code', inj.switches)
    rec.count('overlapping_switches', inj.overlap_switches)
    rec.count('schedule_runs')
    rec.nontrivial(('schedule-digest', inj.sequence.hexdigest()))
    rec.count('distinct_schedule_digests_candidates')
    for e in errors:
        rec.violation('schedule:thread-error', 'worker thread died', dict(kind='c18', mode='schedule'), 'no error', e)
    for t, call, got in built_results:
        if call is None:
            rec.violation('concurrent-build:grammar-error', 'Grammar() while other threads parse', dict(kind='c18', mode='concurrent-build', target=t.name),
                          'module', got)
            continue
        rec.count('concurrently_built_module_calls')
        compare(rec, t, call, got, 'concurrent-build', threads=nthreads)
    for i in range(nthreads):
        for (t, call), got in zip(plans[i], results[i]):
            rec.count('schedule_calls')
            compare(rec, t, call, got, 'schedule', threads=nthreads, prob=prob)
    return inj.sequence.hexdigest()


def run_shard(rec):
    quick = rec.tier == 'quick'
    rec.deadline = time.time() + (300 if quick else 700)
    ts = targets(rec, quick)
    history(rec, ts, 400 if quick else 3000)
    churn(rec, ts)
    leaks(rec, ts)
    reentrancy(rec, ts, 6 if quick else 40)
    embedding(rec)
    name_reuse(rec)
    if rec.shard == 0:
        # a name compiled with other descriptions (and with failing Grammar() calls) before it is
        # extended: the scenario is shared with C11
        from . import c11
        c11.name_reuse(rec)
    digests = set()
    rounds = 3 if quick else 20
    for r in range(rounds):
        if rec.out_of_time():
            rec.count('cut_by_time')
            break
        nthreads = [2, 4, 8, 3, 6][(r + rec.shard) % 5]
        digests.add(schedule(rec, ts, nthreads, 12 if quick else 40, [0.02, 0.05, 0.2][r % 3], with_grammar_thread=(r % 2 == 1)))
    rec.count('distinct_schedule_digests', len(digests))
    # after all of that the long-lived modules still answer like fresh ones
    history(rec, ts, 100 if quick else 500)
    rec.sample(dict(targets=[t.name for t in ts], hooked_grammar=HOOKED.strip()[:300],
                    example_call=repr(ts[0].calls[0])[:160]), limit=1)


def replay(rec, rep):
    import ast
    case = rep['case']
    if case.get('kind') == 'name-reuse':
        from . import c11
        return c11.name_reuse(rec)
    # a single call against a fresh module reproduces only history-independent failures; the whole
    # shard workload is re-run (seeded) to reproduce history / schedule dependent ones
    run_shard(rec)
