"""C01 -- PEG semantics of the core expressions.

Monitors: (a) boundary recorder vs reference model E1 on g.parse and every
g.<Rule>.parse; (b) M-trace PEG trace specification on the instrumented emitted
source (model free)."""
import time

from .. import gast, gen, diff, tracer, corpus, work

ID = 'C01'


def plan(tier, seed):
    return dict(
        shards=16,
        rule='enumerated parent x child shapes (depth 1 exhaustive over an 11-leaf set, depth 2 over '
             'a reduced leaf set, each inside continuation contexts), seeded random multi-rule '
             'grammars to depth 6, text and bytes mode; inputs = all strings over a 2-3 letter '
             'alphabet up to length 4 (quick) / 6 (thorough).  Non-trivial = distinct '
             '(description, input) whose model run contains >= 1 undo event (a failed or '
             'look-ahead attempt after the position had moved).',
        assumptions=[
            'reference model E1 (vlib/refpeg.py) is the documented PEG meaning',
            'CPython re is shared by model and code (regex semantics not under test)',
            'generators emit only well-formed grammars (vlib/gen.py Analysis)',
        ],
    )


def inconclusive(counters, evaluations, tier):
    out = []
    if counters.get('trace_events', 0) == 0:
        out.append('M-trace observed no events')
    return out


alphabet_for = work.alphabet_for
inputs_for = work.inputs_for
run_grammar = work.run_grammar


def run_shard(rec):
    quick = rec.tier == 'quick'
    budget = 300 if quick else 800
    rec.deadline = time.time() + budget
    maxlen = 4 if quick else 6
    idx = 0
    # Phase A: depth 1, exhaustive, all contexts, text + bytes
    for bytes_mode in (False, True):
        leaves = gen.bytes_leaves() if bytes_mode else gen.text_leaves()
        lrules = gen.BYTES_LEAF_RULES if bytes_mode else gen.TEXT_LEAF_RULES
        for tag, x in gen.depth1(leaves, bytes_mode):
            for cname, cx in gen.continuation_contexts(x, bytes_mode):
                idx += 1
                if not rec.mine(idx):
                    continue
                G = gen.shape_grammar(cx, lrules)
                if not gen.well_formed(G):
                    rec.drop()
                    continue
                ins = inputs_for(alphabet_for(cx, bytes_mode), maxlen if cname == 'alone' else min(maxlen, 4), bytes_mode)
                run_grammar(rec, G, ins, tag + (cname, 'b' if bytes_mode else 't'),
                            trace=(idx % 5 == 0))
    # Phase A2: literals whose spelling needs escaping or whose matching has corner cases
    for bytes_mode, zoo in ((False, gen.literal_zoo()), (True, gen.bytes_zoo())):
        for ztag, lit, alpha in zoo:
            for cname, cx in (('alone', lit), ('seq-rest', ('seq', [lit, ('bre' if bytes_mode else 're', '(?s).*', False)])),
                              ('star', ('star', lit)), ('opt-rest', ('seq', [('opt', lit), ('bre' if bytes_mode else 're', '(?s).*', False)])),
                              ('alt', ('alt', [('seq', [lit, ('fail', None)]), ('bre' if bytes_mode else 're', '(?s).*', False)])),
                              ('not', ('seq', [('expectnot', lit), ('bre' if bytes_mode else 're', '(?s).?', False)]))):
                idx += 1
                if not rec.mine(idx):
                    continue
                G = gast.simple_grammar({'start': cx})
                if not gen.well_formed(G):
                    rec.drop()
                    continue
                ins = list(gen.all_strings(alpha, 4))
                if bytes_mode:
                    ins = [t.encode('latin-1') for t in ins]
                run_grammar(rec, G, ins, ('zoo', ztag, cname, 'b' if bytes_mode else 't'), trace=(idx % 4 == 0))
    # Phase A3: choices / Longest / sequences whose operands are regexes with groups, back-references,
    # named groups, inline flags, alternation and anchors: every ordered pair (each operand is its own
    # pattern -- group numbers, flags and alternation never leak from one into the other)
    REGEXES = ['(a)(b)', '(a|b)\\1', '(?P<q>[ab])(?P=q)', 'a|ab', '(?i)b', 'b$', '(a)?b', '(?:a|b)(a)\\1', '[ab](?=a)', 'a{2}|b']
    for r1 in REGEXES:
        for r2 in REGEXES:
            for icase in (False, True):
                e1, e2 = ('re', r1, icase), ('re', r2, False)
                for cname, cx in (('alt', ('seq', [('alt', [e1, e2]), ('re', '[ab]*', False)])),
                                  ('alt3', ('seq', [('alt', [('str', 'bb'), e1, e2, ('str', 'a')]), ('re', '[ab]*', False)])),
                                  ('longest', ('seq', [('longest', [e1, e2]), ('re', '[ab]*', False)])),
                                  ('seq', ('seq', [e1, ('opt', e2), ('re', '[ab]*', False)]))):
                    idx += 1
                    if not rec.mine(idx):
                        continue
                    G = gast.simple_grammar({'start': cx})
                    if not gen.well_formed(G):
                        rec.drop()
                        continue
                    run_grammar(rec, G, list(gen.all_strings('abB' if icase else 'ab', 4)), ('regex-pair', cname, r1, r2), trace=(idx % 6 == 0))
    # Phase A3b: WIDE choices (6 .. 14 alternatives) of literals some of which are proper prefixes of later
    # ones: `|` commits to the first alternative that matches however many there are; also Longest and
    # mixed literal / regex / reference alternatives of that width
    LITS = ['a', 'ab', 'abb', 'b', 'ba', 'bb', 'aa', 'aab', 'bab', 'abab', 'bbb', 'baa', 'aba', 'abba']
    for width in (6, 8, 9, 12, 14):
        for variant in range(6):
            idx += 1
            if not rec.mine(idx):
                continue
            order = list(LITS[:width])
            rec_rng = __import__('random').Random(width * 100 + variant)
            rec_rng.shuffle(order)
            if variant == 0:
                order = sorted(order, key=len)          # every prefix before the longer literal
            alts = [('str', x) for x in order]
            if variant == 4:
                alts[width // 2] = ('re', 'ab?', False)
            if variant == 5:
                alts[1] = ('ref', 'Rab')
            for cname, cx in (('alt-rest', ('seq', [('alt', alts), ('re', '[ab]*', False)])),
                              ('alt-star', ('seq', [('star', ('alt', alts)), ('re', '[ab]*', False)])),
                              ('alt-then-b', ('alt', [('seq', [('alt', alts), ('str', 'b')]), ('re', '[ab]*', False)])),
                              ('longest-rest', ('seq', [('longest', alts), ('re', '[ab]*', False)]))):
                G = gen.shape_grammar(cx, gen.TEXT_LEAF_RULES)
                if not gen.well_formed(G):
                    rec.drop()
                    continue
                run_grammar(rec, G, list(gen.all_strings('ab', 5)), ('wide-choice', width, variant, cname), trace=(idx % 3 == 0))
    # Phase A4: Backtrack that can fail (fewer characters behind the position than it asks for) --
    # the generators elsewhere only place it behind a consuming token
    REST = ('re', '[ab]*', False)
    BT = [
        ('alone', ('backtrack', 1)),
        ('alone0', ('backtrack', 0)),
        ('alt-first', ('seq', [('alt', [('backtrack', 1), ('str', 'a')]), REST])),
        ('after-opt', ('seq', [('opt', ('str', 'a')), ('backtrack', 1), REST])),
        ('after-star-2', ('seq', [('star', ('str', 'a')), ('right', ('backtrack', 2), REST)])),
        ('opt-of', ('seq', [('opt', ('str', 'a')), ('opt', ('backtrack', 2)), REST])),
        ('in-alt-later', ('seq', [('opt', ('str', 'a')), ('alt', [('seq', [('backtrack', 2), ('str', 'aa')]), ('seq', [('backtrack', 1), ('str', 'a')]), ('str', 'b')]), REST])),
        ('expect', ('seq', [('opt', ('str', 'a')), ('expect', ('backtrack', 1)), REST])),
        ('expectnot', ('seq', [('opt', ('str', 'a')), ('expectnot', ('backtrack', 1)), REST])),
        ('longest', ('seq', [('opt', ('str', 'ab')), ('longest', [('backtrack', 2), ('backtrack', 1), ('str', 'b')]), REST])),
        ('left', ('seq', [('opt', ('str', 'a')), ('left', ('str', 'b'), ('backtrack', 2)), REST])),
        ('rule', ('seq', [('opt', ('str', 'a')), ('ref', 'Back'), REST])),
        # Backtrack inside the operand of ? / * / {m,n} / a list, next to literals: the operand matches
        # on less input than its literals add up to, also right at the end of the input
        ('in-opt', ('seq', [('str', 'a'), ('opt', ('right', ('backtrack', 1), ('str', 'ab'))), REST])),
        ('in-opt-seq', ('seq', [('opt', ('seq', [('str', 'a'), ('backtrack', 1), ('str', 'ab')])), REST])),
        ('in-star', ('seq', [('star', ('seq', [('str', 'ab'), ('backtrack', 1), ('str', 'b')])), REST])),
        ('in-rep', ('seq', [('rep', ('seq', [('str', 'ab'), ('backtrack', 1)]), 0, 2), REST])),
        ('in-plus', ('seq', [('opt', ('plus', ('seq', [('str', 'aa'), ('backtrack', 1)]))), REST])),
        ('in-sep', ('seq', [('sep', ('seq', [('str', 'ab'), ('backtrack', 1)]), ('str', 'b'), {'allow_trailer': True, '_op': '/?'}), REST])),
        ('in-opt-alt', ('seq', [('str', 'b'), ('opt', ('alt', [('seq', [('backtrack', 1), ('str', 'bab')]), ('seq', [('backtrack', 1), ('str', 'ba')])])), REST])),
        ('in-opt-longest', ('seq', [('str', 'a'), ('opt', ('longest', [('seq', [('backtrack', 1), ('str', 'aab')]), ('seq', [('backtrack', 1), ('str', 'ab')])])), REST])),
    ]
    for btag, x in BT:
        idx += 1
        if not rec.mine(idx):
            continue
        G = gen.shape_grammar(x, {'Back': ('backtrack', 1)})
        run_grammar(rec, G, list(gen.all_strings('ab', 4)), ('backtrack', btag), trace=True)
    rec.count('phaseA_done')
    # Phase B: depth 2 over the reduced leaf set (seed-rotated sample in quick)
    reduced = [('str', 'a'), ('str', 'ab'), ('re', 'a?', False), ('ref', 'Rab')]
    stride = 2 if quick else 1
    off = rec.seed % stride
    j = 0
    for tag, x in gen.depth2(gen.text_leaves(), reduced):
        j += 1
        if j % stride != off:
            continue
        idx += 1
        if not rec.mine(idx):
            continue
        if rec.out_of_time():
            rec.count('phaseB_cut_by_time')
            break
        G = gen.shape_grammar(x, gen.TEXT_LEAF_RULES)
        if not gen.well_formed(G):
            rec.drop()
            continue
        run_grammar(rec, G, inputs_for('ab', maxlen, False), tag, trace=(idx % 7 == 0))
    # Phase C: random multi-rule grammars, every rule as entry point
    n_random = 250 if quick else 4000
    for k in range(n_random):
        if rec.out_of_time():
            rec.count('phaseC_cut_by_time')
            break
        bm = rec.rng.random() < 0.25
        rg = gen.RandomGrammar(rec.rng, maxdepth=rec.rng.randint(2, 6), bytes_mode=bm,
                               features=('backtrack',) if rec.rng.random() < 0.2 else ())
        G = rg.grammar()
        if not gen.well_formed(G):
            rec.drop()
            continue
        entries = [None] + [s[1] for s in G['stmts'] if s[0] == 'rule']
        ins = inputs_for('abA' if not bm else 'abB', 4 if quick else 5, bm)
        run_grammar(rec, G, ins, ('random',), entries=entries, trace=(k % 3 == 0))
    # Phase D: model-free trace monitor on the repository's own grammars
    if rec.shard == 0 or not quick:
        corpus.trace_repository_grammars(rec, tracer, quick)


def replay(rec, rep):
    work.generic_replay(rec, rep, monitors=('value',))
