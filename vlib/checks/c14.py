"""C14 -- parsed objects are values: equality, hashing, copying and repr agree.

Monitors: contracts on ParsedObject.__eq__ / __hash__ / _asdict / _replace of the
module under test (attached to the class, so every call made by Python itself --
list comparison, dict lookup, copy -- is checked too); relational oracles over
pools of structurally close objects; deepcopy / pickle / eval(repr) round trips."""
import copy
import itertools
import pickle
import sys
import time

from .. import diff, observe, contracts, forest

ID = 'C14'


def plan(tier, seed):
    return dict(
        shards=16,
        rule='random forests built with the classes of a real emitted module (arity 0..5, Infix/Prefix/'
             'Postfix; fields holding scalars, None, lists, tuples, dicts with differing insertion order, '
             'nested and shared objects, position metadata), pools of ~30 structurally close objects made '
             'by single-field mutation / equal rebuilds, all pairs and sampled triples; parse results of '
             'the same module.  One evaluation = one relational check or round trip.  Non-trivial = '
             'distinct pairs of distinct objects that the reference finds equal, plus every round trip of '
             'an object holding an unhashable or nested field.',
        assumptions=['reference structural equality vlib/forest.py ref_eq', 'objects are not mutated after hashing',
                     'no NaN and no cyclic structures in the forests'],
    )


def inconclusive(counters, evaluations, tier):
    out = []
    for k in ('contract:__eq__', 'contract:__hash__', 'contract:_replace', 'contract:_asdict', 'deepcopy_roundtrips',
              'pickle_roundtrips', 'repr_roundtrips'):
        if counters.get(k, 0) == 0:
            out.append('%s never evaluated' % k)
    return out


class Monitors:
    def __init__(self, g, rec):
        self.g = g
        self.rec = rec
        self.counter = contracts.Counter()
        self.problems = []
        self.busy = False
        self.attach()

    def attach(self):
        g = self.g
        PO = g.ParsedObject
        mon = self
        orig_eq, orig_hash, orig_asdict, orig_replace = PO.__eq__, PO.__hash__, PO._asdict, PO._replace

        def __eq__(self, other):
            result = orig_eq(self, other)
            if not mon.busy:
                mon.busy = True
                try:
                    mon.counter.hit('__eq__')
                    want = forest.ref_eq(g, self, other) if isinstance(other, PO) else False
                    got = result if result is not NotImplemented else False
                    if bool(got) != bool(want):
                        mon.problems.append(('eq-contract', want, got, mon.describe(self), mon.describe(other)))
                finally:
                    mon.busy = False
            return result

        def __hash__(self):
            result = orig_hash(self)
            if not mon.busy:
                mon.counter.hit('__hash__')
                again = orig_hash(self)
                if result != again or not isinstance(result, int):
                    mon.problems.append(('hash-not-deterministic', result, again, mon.describe(self), ''))
            return result

        def _asdict(self):
            result = orig_asdict(self)
            mon.counter.hit('_asdict')
            fields = list(type(self)._fields)
            if list(result.keys()) != fields or any(result[f] is not getattr(self, f) for f in fields):
                mon.problems.append(('asdict-contract', fields, list(result.keys()), mon.describe(self), ''))
            return result

        def _replace(self, **kw):
            given = dict(kw)
            before = {f: getattr(self, f) for f in type(self)._fields}
            meta_before = dict(self._metadata._fields)
            result = orig_replace(self, **kw)
            mon.counter.hit('_replace')
            ok = result is not self and type(result) is type(self)
            if ok:
                for f in type(self)._fields:
                    want = given[f] if f in given else before[f]
                    if getattr(result, f) is not want:
                        ok = False
                    if getattr(self, f) is not before[f]:
                        ok = False
                if dict(result._metadata._fields) != meta_before or dict(self._metadata._fields) != meta_before:
                    ok = False
                if result._metadata is self._metadata:
                    ok = False
                else:
                    # ... and not shared in any part: what is written on the copy's metadata afterwards does
                    # not show on the receiver's (the two may be different objects around one dictionary)
                    try:
                        result._metadata.vt_probe = 'written-on-the-copy'
                        if self._metadata.vt_probe is not None or dict(self._metadata._fields) != meta_before:
                            ok = False
                        result._metadata._fields.pop('vt_probe', None)
                        self._metadata._fields.pop('vt_probe', None)
                    except Exception:
                        ok = False
            if not ok:
                mon.problems.append(('replace-contract', 'new object, given fields replaced, others identical, '
                                     'metadata equal, receiver untouched', mon.describe(result), mon.describe(self), repr(given)[:80]))
            elif not mon.busy:
                # the new object is a value of its own: it hashes like a freshly constructed equal
                # object, whatever was memoised on the receiver (which may have been hashed before)
                mon.busy = True
                try:
                    fresh = type(result)(**{f: getattr(result, f) for f in type(result)._fields})
                    try:
                        hf, hr = orig_hash(fresh), orig_hash(result)
                    except TypeError:
                        hf = hr = None
                    if hf != hr:
                        mon.problems.append(('replace-hash', 'hash of the replaced object == hash of an equal fresh object',
                                             (hr, hf), mon.describe(result), mon.describe(self)))
                finally:
                    mon.busy = False
            return result

        PO.__eq__, PO.__hash__, PO._asdict, PO._replace = __eq__, __hash__, _asdict, _replace

    def describe(self, v):
        try:
            self.busy = True
            return repr(v)[:300]
        except Exception as e:
            return '<repr failed: %s>' % e
        finally:
            self.busy = False

    def flush(self, case):
        for p in self.problems[:5]:
            self.rec.violation('contract:%s' % p[0], 'contract on ParsedObject.%s' % p[0].split('-')[0], dict(case, objects=[p[3], p[4]]), p[1], p[2])
        del self.problems[:]


def meta_of(g, v):
    """[(path, metadata dict)] of all objects in v."""
    out = []
    stack = [((), v)]
    seen = set()
    while stack:
        path, x = stack.pop()
        if isinstance(x, g.ParsedObject):
            if id(x) in seen:
                continue
            seen.add(id(x))
            out.append((path, repr(sorted(x._metadata._fields.items(), key=repr))))
            for f in type(x)._fields:
                stack.append((path + (f,), getattr(x, f)))
        elif isinstance(x, (list, tuple)):
            for i, y in enumerate(x):
                stack.append((path + (i,), y))
        elif isinstance(x, dict):
            for k, y in x.items():
                stack.append((path + (repr(k),), y))
    return sorted(out)


def independent(g, a, b):
    """No parsed object or mutable container is shared between a and b."""
    ids = set()
    stack = [a]
    while stack:
        x = stack.pop()
        if isinstance(x, g.ParsedObject):
            if id(x) in ids:
                continue
            ids.add(id(x))
            stack.extend(getattr(x, f) for f in type(x)._fields)
        elif isinstance(x, (list, dict)):
            ids.add(id(x))
            stack.extend(x.values() if isinstance(x, dict) else x)
        elif isinstance(x, tuple):
            stack.extend(x)
    stack = [b]
    seen = set()
    while stack:
        x = stack.pop()
        if isinstance(x, g.ParsedObject):
            if id(x) in ids:
                return False
            if id(x) in seen:
                continue
            seen.add(id(x))
            stack.extend(getattr(x, f) for f in type(x)._fields)
        elif isinstance(x, (list, dict)):
            if id(x) in ids and (len(x) > 0):
                return False
            stack.extend(x.values() if isinstance(x, dict) else x)
        elif isinstance(x, tuple):
            stack.extend(x)
    return True


def has_nested(g, v):
    return any(isinstance(getattr(v, f), (list, dict, tuple, g.ParsedObject)) for f in type(v)._fields)


def safe_hash(v):
    try:
        return ('ok', hash(v))
    except Exception as e:
        return ('raised', type(e).__name__, str(e)[:80])


def round_trips(rec, g, mon, obj, case, named):
    G = g
    # deepcopy
    rec.case()
    try:
        c = copy.deepcopy(obj)
        rec.count('deepcopy_roundtrips')
        ok = forest.ref_eq(G, obj, c) and c is not obj and independent(G, obj, c) and meta_of(G, obj) == meta_of(G, c)
        if not ok:
            rec.violation('deepcopy:not-equal-independent-copy', 'deepcopy round trip', case,
                          'equal, independent, same metadata', (mon.describe(obj), mon.describe(c)))
        elif not (obj == c):
            rec.violation('deepcopy:eq-disagrees', 'deepcopy round trip', case, 'obj == copy', mon.describe(c))
    except Exception as e:
        rec.violation('deepcopy:%s' % type(e).__name__, 'deepcopy round trip', case, 'a copy', '%s: %s' % (type(e).__name__, str(e)[:120]))
    if has_nested(G, obj):
        rec.nontrivial(('rt', id(obj)))
    # shallow copy
    rec.case()
    try:
        c = copy.copy(obj)
        if not forest.ref_eq(G, obj, c) or c is obj:
            rec.violation('copy:not-equal', 'copy round trip', case, 'equal new object', mon.describe(c))
    except Exception as e:
        rec.violation('copy:%s' % type(e).__name__, 'copy round trip', case, 'a copy', str(e)[:120])
    # repr
    rec.case()
    try:
        mon.busy = True
        text = repr(obj)
        mon.busy = False
        c = eval(text, dict(vars(G)))
        rec.count('repr_roundtrips')
        if not forest.ref_eq(G, obj, c):
            rec.violation('repr:not-equal', 'eval(repr(obj)) in the module namespace', case, text[:200], mon.describe(c))
    except Exception as e:
        mon.busy = False
        rec.violation('repr:%s' % type(e).__name__, 'eval(repr(obj))', case, 'an equal object', str(e)[:160])
    # pickle (named grammars only)
    if named:
        rec.case()
        try:
            c = pickle.loads(pickle.dumps(obj))
            rec.count('pickle_roundtrips')
            if not (forest.ref_eq(G, obj, c) and independent(G, obj, c) and meta_of(G, obj) == meta_of(G, c)):
                rec.violation('pickle:not-equal-independent-copy', 'pickle round trip', case,
                              'equal, independent, same metadata', mon.describe(c))
        except Exception as e:
            rec.violation('pickle:%s' % type(e).__name__, 'pickle round trip', case, 'a copy', '%s: %s' % (type(e).__name__, str(e)[:120]))


def relational(rec, g, mon, pool, case):
    G = g
    n = len(pool)
    eqm = {}
    for i in range(n):
        for j in range(n):
            a, b = pool[i], pool[j]
            rec.case()
            want = forest.ref_eq(G, a, b)
            got = (a == b)
            ne = (a != b)
            eqm[(i, j)] = got
            if bool(got) != want or bool(ne) == bool(got):
                rec.violation('eq:differs-from-structural-equality', '== vs reference structural equality',
                              dict(case, objects=[mon.describe(a), mon.describe(b)]), want, (got, ne))
            if want and i != j and a is not b:
                rec.nontrivial(('eqpair', id(a), id(b)))
                ha, hb = safe_hash(a), safe_hash(b)
                rec.count('equal_pairs_hashed')
                if ha != hb or ha[0] != 'ok':
                    rec.violation('hash:equal-objects-differ', 'a == b => hash(a) == hash(b)',
                                  dict(case, objects=[mon.describe(a), mon.describe(b)]), 'equal hashes', (ha, hb))
    # comparisons with values that are not parsed objects: never equal, never raising
    for a in pool[:6]:
        fields = [getattr(a, f) for f in type(a)._fields]
        for foreign in (None, 0, '', tuple(fields), list(fields), dict(zip(type(a)._fields, fields)), type(a), object()):
            rec.case()
            try:
                if (a == foreign) or (foreign == a) or not (a != foreign):
                    rec.violation('eq:equal-to-foreign-value', '== with a value that is not a parsed object',
                                  dict(case, objects=[mon.describe(a), repr(foreign)[:80]]), False, True)
            except Exception as e:
                rec.violation('eq:raises-on-foreign-value', '== with a value that is not a parsed object',
                              dict(case, objects=[mon.describe(a), repr(foreign)[:80]]), 'False', '%s: %s' % (type(e).__name__, str(e)[:80]))
    for i in range(n):
        if not eqm[(i, i)]:
            rec.violation('eq:not-reflexive', 'reflexivity', dict(case, objects=[mon.describe(pool[i])]), True, False)
        for j in range(i + 1, n):
            if bool(eqm[(i, j)]) != bool(eqm[(j, i)]):
                rec.violation('eq:not-symmetric', 'symmetry', dict(case, objects=[mon.describe(pool[i]), mon.describe(pool[j])]),
                              eqm[(i, j)], eqm[(j, i)])
    # transitivity over all triples of the (small) pool
    for i, j, k in itertools.permutations(range(min(n, 14)), 3):
        if eqm[(i, j)] and eqm[(j, k)] and not eqm[(i, k)]:
            rec.violation('eq:not-transitive', 'transitivity', dict(case, objects=[mon.describe(pool[x]) for x in (i, j, k)]), True, False)
            break
    # equal objects behave as one dict key / set member
    try:
        d = {}
        for i, a in enumerate(pool):
            d.setdefault(a, []).append(i)
        rec.count('dict_groupings')
        for key, members in d.items():
            for x, y in zip(members, members[1:]):
                if not forest.ref_eq(G, pool[x], pool[y]):
                    rec.violation('hash:dict-groups-unequal', 'dict grouping', dict(case), 'only equal objects share a key', (x, y))
        groups = len(d)
        classes = []
        for a in pool:
            if not any(forest.ref_eq(G, a, c) for c in classes):
                classes.append(a)
        if groups != len(classes):
            rec.violation('hash:dict-group-count', 'dict grouping', dict(case), len(classes), groups)
    except Exception as e:
        rec.violation('hash:%s' % type(e).__name__, 'hash of objects with unhashable fields', dict(case), 'hashable', str(e)[:120])


def api_checks(rec, g, mon, obj, fgen, case):
    rec.case()
    try:
        try:
            hash(obj)                       # memoise the receiver's hash first
        except TypeError:
            pass
        d = obj._asdict()
        fields = type(obj)._fields
        if fields:
            f = rec.rng.choice(fields)
            new = fgen.value(1)
            r = obj._replace(**{f: new})
            if getattr(r, f) is not new:
                rec.violation('replace:field-not-replaced', '_replace', case, mon.describe(new), mon.describe(r))
            r2 = obj._replace()
            if not forest.ref_eq(g, r2, obj) or r2 is obj:
                rec.violation('replace:empty-not-equal-copy', '_replace()', case, mon.describe(obj), mon.describe(r2))
    except Exception as e:
        rec.violation('api:%s' % type(e).__name__, '_asdict/_replace', case, 'no exception', str(e)[:160])


def run_module(rec, named, nforests, quick):
    name = diff.unique_name('vt_c14') if named else None
    g = forest.load_module(name)
    mon = Monitors(g, rec)
    rng = rec.rng
    try:
        for k in range(nforests):
            if rec.out_of_time():
                rec.count('cut_by_time')
                break
            fgen = forest.ForestGen(rng, g)
            roots = [fgen.obj(rng.randint(1, 4)) for _ in range(4)]
            pool = list(roots)
            while len(pool) < (20 if quick else 30):
                pool.append(forest.mutate(fgen, g, rng.choice(pool), rng))
            pool += forest.shared_twins(fgen, g, rng)
            pool = [p for p in pool if isinstance(p, g.ParsedObject)]
            case = dict(kind='forest', named=named, seed=rec.seed, shard=rec.shard, forest=k)
            relational(rec, g, mon, pool, case)
            mon.flush(case)
            for obj in pool[:8]:
                round_trips(rec, g, mon, obj, case, named)
                api_checks(rec, g, mon, obj, fgen, case)
                mon.flush(case)
            if k == 0:
                rec.sample(dict(pool=[mon.describe(p)[:160] for p in pool[:4]], named=named), limit=2)
        # parse results
        for text in ['', 'a', 'ab', 'abc', 'abcde', 'v', '1+2', '-1!+2', 'aab1+1abcde', 'vvz', '1+2+3abcz']:
            o = observe.observe(g, text)
            if o.outcome[0] == 'value':
                vals = [v for v in o.value if isinstance(v, g.ParsedObject)]
                o2 = observe.observe(g, text)
                vals2 = [v for v in o2.value if isinstance(v, g.ParsedObject)]
                case = dict(kind='parse-result', text_repr=repr(text), named=named)
                relational(rec, g, mon, vals + vals2, case)
                for v in vals:
                    round_trips(rec, g, mon, v, case, named)
                mon.flush(case)
    finally:
        for k2, v in mon.counter.n.items():
            rec.count('contract:' + k2, v)
        if name:
            sys.modules.pop(name, None)


XPROC_DESC = '''grammar vt_c14_xproc
start = Stmt*
class Stmt { name: Word << "=" ; value: Expr ; tags: ("#" >> Word)* ; end: ";" }
Expr = Num between { left: "*" ; left: "+" ; prefix: "-" }
class Num { digits: /[0-9]+/ ; unit: Word? ; info: `{'k': digits, 'n': [unit]}` }
Word = /[a-z]+/
ignore / +/
'''
XPROC_TEXTS = ['a = 1;', 'a = 1 + 2 * 3 kg #x #y; b = -4;', 'long = 12 m * 3 + -7 #tag;', '']
XPROC_CHILD = '''
import os, pickle, sys
sys.path.insert(0, os.environ['VERIF_REPO'])
from sourcer import Grammar
g = Grammar(%r)
objs = [g.parse(t) for t in %r]
if %r:
    for o in objs:
        for x in g.visit(o):
            hash(x)
sys.stdout.buffer.write(pickle.dumps(objs))
'''


def cross_process_pickle(rec, quick):
    """Objects pickled by ANOTHER interpreter -- with its own string-hash seed, after they were hashed
    there -- and loaded here: equal to what the same text parses to here, with the same hash, usable as
    a dict key next to it."""
    import os
    import subprocess
    r = observe.compile_grammar(XPROC_DESC)
    if r[0] != 'ok':
        rec.violation('xproc:grammar-error', 'Grammar()', dict(kind='xproc'), 'module', r)
        return
    g = r[1]
    fresh = [g.parse(t) for t in XPROC_TEXTS]
    try:
        for hseed in (['1', '7', 'random'] if quick else ['1', '2', '3', '7', '99', 'random', 'random', 'random']):
            for hashed_first in (True, False):
                env = dict(os.environ, PYTHONHASHSEED=hseed, VERIF_REPO=os.environ.get('VERIF_REPO', '/repo'))
                p = subprocess.run([sys.executable, '-c', XPROC_CHILD % (XPROC_DESC, XPROC_TEXTS, hashed_first)], env=env,
                                   stdout=subprocess.PIPE, stderr=subprocess.PIPE, timeout=120)
                case = dict(kind='xproc', hashseed_of_the_pickling_process=hseed, hashed_before_pickling=hashed_first)
                if p.returncode != 0:
                    rec.violation('xproc:child-failed', 'pickling interpreter', case, 'a pickle', p.stderr.decode('utf-8', 'replace')[-300:])
                    continue
                loaded = pickle.loads(p.stdout)
                rec.count('cross_process_pickles')
                for t, a, b in zip(XPROC_TEXTS, loaded, fresh):
                    xs, ys = list(g.visit(a)), list(g.visit(b))
                    for x, y in zip(xs, ys):
                        rec.case()
                        rec.nontrivial(('xproc', hseed, hashed_first, t, len(xs)))
                        rec.count('cross_process_objects_compared')
                        if not (x == y):
                            rec.violation('xproc:not-equal', 'object pickled in another process vs parsed here', dict(case, text=t), repr(y)[:200], repr(x)[:200])
                        elif hash(x) != hash(y) or y not in {x: 1}:
                            rec.violation('xproc:hash:equal-objects-differ', 'a == b => hash(a) == hash(b), a pickled in another process',
                                          dict(case, text=t, object=repr(x)[:200]), hash(y), hash(x))
    finally:
        sys.modules.pop('vt_c14_xproc', None)


def interrupted_hash(rec):
    """hash() of a tree too deep for the current recursion limit raises RecursionError; hashing the same
    object again with room to spare must give the hash of an equal, freshly parsed object (nothing of the
    abandoned attempt may stick).  Unhashable field values of other kinds: a set / bytearray inside a
    field next to an equal object holding the same."""
    r = observe.compile_grammar('start = Num between { left: "+" }\nclass Num { d: /[0-9]/ }\n')
    if r[0] != 'ok':
        return
    g = r[1]
    text = '+'.join('123456789'[i % 9] for i in range(250))
    a, b = g.parse(text), g.parse(text)
    old = sys.getrecursionlimit()
    depth = 0
    f = sys._getframe()
    while f is not None:
        depth += 1
        f = f.f_back
    interrupted = False
    try:
        sys.setrecursionlimit(depth + 150)
        try:
            hash(a)
        except RecursionError:
            interrupted = True
    finally:
        sys.setrecursionlimit(max(old, 20000))
    rec.case()
    rec.count('interrupted_hashes', int(interrupted))
    rec.nontrivial(('interrupted-hash', interrupted))
    try:
        ha, hb = hash(a), hash(b)
        if a == b and ha != hb:
            rec.violation('hash:equal-objects-differ:after-interrupted-hash', 'a == b => hash(a) == hash(b), hash(a) first attempted under a tight recursion limit',
                          dict(kind='interrupted-hash', terms=250, interrupted=interrupted), hb, ha)
    finally:
        sys.setrecursionlimit(old)


def exotic_field_values(rec):
    """Equal objects have equal hashes whatever the fields hold: values that are unhashable themselves
    (set, bytearray, nested in lists / dicts) next to the hashable values they are equal to (frozenset,
    bytes), objects holding such values on both sides, None / bool / int / float twins."""
    r = observe.compile_grammar('start = Box*\nclass Box { v: /[a-z]/ ; w: /[0-9]/? }\n')
    if r[0] != 'ok':
        return
    g = r[1]
    import collections
    NT = collections.namedtuple('NT', 'a b')
    groups = [
        [NT(1, 2), (1, 2), NT(1.0, 2)],
        [NT({1}, 'x'), ({1}, 'x'), (frozenset({1}), 'x')],
        [[NT(1, 2)], [(1, 2)]],
        [{1, 2}, frozenset({1, 2}), {2, 1}],
        [bytearray(b'xy'), b'xy', bytearray(b'xy')],
        [[{1}, 'a'], [frozenset({1}), 'a']],
        [{'k': {1, 2}}, {'k': frozenset({2, 1})}],
        [(bytearray(b'a'), 1), (b'a', 1.0), (b'a', True)],
        [set(), frozenset()],
        [[g.Box({1}, None)], [g.Box(frozenset({1}), None)]],
    ]
    for grp in groups:
        objs = [g.Box(v, None) for v in grp] + [g.Box('x', v) for v in grp]
        for a in objs:
            for b in objs:
                rec.case()
                if a is not b and a == b:
                    rec.count('exotic_equal_pairs')
                    rec.nontrivial(('exotic', repr(a)[:40], repr(b)[:40]))
                    try:
                        ha, hb = hash(a), hash(b)
                    except Exception as e:
                        rec.violation('hash:raises:%s' % type(e).__name__, 'hash of an object holding an unhashable value', dict(kind='exotic', objects=[repr(a)[:100], repr(b)[:100]]), 'an int', str(e)[:100])
                        continue
                    if ha != hb:
                        rec.violation('hash:equal-objects-differ:exotic-field-values', 'a == b => hash(a) == hash(b)',
                                      dict(kind='exotic', objects=[repr(a)[:100], repr(b)[:100]]), ha, hb)


def pickle_after_name_reuse(rec):
    """Objects of a grammar installed under a name pickle -- also when the name was used for another
    description in between and the first description is compiled again (the module in use must be the
    one its classes are looked up in)."""
    name = 'vt_c14_reuse_%d' % id(rec)
    A = 'grammar %s\nstart = Box*\nclass Box { v: /[a-z]/ ; n: /[0-9]/? }\n' % name
    B = 'grammar %s\nstart = Other\nclass Other { w: "x" }\nclass Box { q: "y" }\n' % name
    try:
        for step, seq in (('A', [A]), ('A-B-A', [A, B, A]), ('A-A', [A, A]), ('B-A-B-A', [B, A, B, A])):
            g = None
            for d in seq:
                r = observe.compile_grammar(d)
                if r[0] != 'ok':
                    rec.violation('pickle-reuse:grammar-error', 'Grammar()', dict(kind='pickle-reuse', step=step), 'module', r)
                    return
                g = r[1]
            obj = g.parse('a1b')
            rec.case()
            rec.nontrivial(('pickle-reuse', step))
            rec.count('pickles_after_name_reuse')
            try:
                c = pickle.loads(pickle.dumps(obj))
                if not (c == obj and c is not obj and all(type(x) is type(y) for x, y in zip(c, obj))):
                    rec.violation('pickle-reuse:not-equal', 'pickle round trip after the name was re-used', dict(kind='pickle-reuse', step=step), repr(obj), repr(c))
            except Exception as e:
                rec.violation('pickle-reuse:%s' % type(e).__name__, 'pickle round trip after the name was re-used', dict(kind='pickle-reuse', step=step),
                              'an equal copy', '%s: %s' % (type(e).__name__, str(e)[:160]))
    finally:
        sys.modules.pop(name, None)


def run_shard(rec):
    quick = rec.tier == 'quick'
    rec.deadline = time.time() + (300 if quick else 600)
    if rec.shard == 5:
        pickle_after_name_reuse(rec)
    if rec.shard == 3:
        exotic_field_values(rec)
    if rec.shard == 1:
        cross_process_pickle(rec, quick)
    if rec.shard == 2:
        interrupted_hash(rec)
    run_module(rec, named=False, nforests=60 if quick else 2500, quick=quick)
    run_module(rec, named=True, nforests=60 if quick else 2500, quick=quick)


def replay(rec, rep):
    # forests are regenerated from (seed, shard): re-run that shard's workload
    case = rep['case']
    if case.get('kind') == 'xproc':
        return cross_process_pickle(rec, True)
    if case.get('kind') == 'pickle-reuse':
        return pickle_after_name_reuse(rec)
    if case.get('kind') == 'exotic':
        return exotic_field_values(rec)
    if case.get('kind') == 'interrupted-hash':
        return interrupted_hash(rec)
    rec.seed = case.get('seed', rec.seed)
    import random
    rec.rng = random.Random((rec.seed * 1000003 + case.get('shard', 0)) & 0xffffffff)
    rec.shard = case.get('shard', 0)
    run_shard(rec)
