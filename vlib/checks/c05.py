"""C05 -- bound names and data-dependent predicates see the values parsed earlier.

Monitor: boundary recorder vs reference model with lexical environments.  Every
binding and read site is tagged, so a result identifies the binding it saw."""
import time

from .. import gast, gen, diff, work, proggen, observe

ID = 'C05'

ALPHA = 'ab0123()!,:'


def plan(tier, seed):
    return dict(
        shards=16,
        rule='curated binding shapes (re-binding after an abandoned alternative, per-iteration and '
             'per-recursion-level bindings, class members plain/let/pass/requires, where/|>/<|, counts) '
             'plus seeded random programs from vlib/proggen.py (lets, classes, templates, recursion); '
             'inputs found by model-guided mutation search (accepted, partially accepted and rejected '
             'strings), every module reused for all its inputs so stale values of earlier parses would '
             'show.  Non-trivial = distinct (description,input) whose expected value contains a tagged '
             'read of a bound name or whose model run has an undo event.',
        assumptions=['reference model E1 with lexical environments',
                     'nested same-name shadowing occurs only in three curated shapes (known finding); whether an '
                     'outer binding is visible again after an inner same-name let *succeeded and ended* is not '
                     'settled by the statement and is never generated'],
    )


def curated():
    T = ('re', '[ab]', False)
    D = ('apply', ('re', '[0-3]', False), ('py', 'int'))
    R = lambda n, *names: ('py', "('r%d', %s)" % (n, ', '.join(names)))
    out = []
    # re-binding after an abandoned alternative
    out.append(('rebind-alt', {'start': ('alt', [
        ('let', 'x', ('str', 'a'), ('seq', [T, R(1, 'x'), ('str', '!')])),
        ('let', 'x', T, ('seq', [T, R(2, 'x')]))])}))
    out.append(('rebind-alt-same-prefix', {'start': ('alt', [
        ('let', 'x', ('apply', T, ('py', "lambda v: ('first', v)")), ('seq', [R(1, 'x'), ('str', '!')])),
        ('let', 'x', ('apply', T, ('py', "lambda v: ('second', v)")), R(2, 'x'))])}))
    # per-iteration binding
    out.append(('per-iteration', {'start': ('star', ('let', 'x', T, ('seq', [
        R(1, 'x'), ('where', ('re', '[01]', False), ('py', "lambda v: (v == '1') == (x == 'a')"))])))}))
    # per recursion level, read after the recursive invocation returned
    out.append(('per-level', {'start': ('ref', 'N'), 'N': ('let', 'x', T, ('seq', [
        R(1, 'x'), ('opt', ('right', ('str', '('), ('left', ('ref', 'N'), ('str', ')')))), R(2, 'x')]))}))
    # where / apply / lapply
    out.append(('where-bound', {'start': ('let', 'o', T, ('seq', [
        ('star', ('str', '!')), ('where', T, ('py', 'lambda v: v == o'))]))}))
    out.append(('apply-bound', {'start': ('let', 'x', T, ('seq', [
        ('apply', T, ('py', 'lambda v: (v, x)')), ('lapply', ('py', 'lambda v: [x, v]'), T)]))}))
    # |> and <| whose function operand is itself parsed from the input (operands are parsed in source
    # order: a then f for `a |> f`, f then a for `f <| a`)
    MK = ('apply', T, ('py', 'lambda t: lambda d: (t, d)'))                  # consumes one token, yields a function
    out.append(('lapply-consuming-function', {'start': ('star', ('lapply', MK, D))}))
    out.append(('apply-consuming-function', {'start': ('star', ('apply', D, MK))}))
    out.append(('lapply-nested-function', {'start': ('seq', [('lapply', MK, T), ('opt', ('lapply', MK, ('lapply', MK, D)))])}))
    out.append(('apply-chain', {'start': ('star', ('apply', ('apply', T, ('py', 'lambda v: (v,)')), ('py', 'lambda v: v + v')))}))
    out.append(('lapply-chain', {'start': ('star', ('lapply', ('py', 'lambda v: (v,)'), ('lapply', ('py', 'lambda v: v + v'), T)))}))
    out.append(('apply-bound-function', {'start': ('let', 'f', MK, ('seq', [('apply', D, ('py', 'f')), ('lapply', ('py', 'f'), T)]))}))
    # a name re-bound from its own previous value (the inner initialiser reads the outer binding; the
    # outer binding is not read again afterwards)
    out.append(('rebind-from-previous', {'start': ('let', 'x', D, ('let', 'x', ('py', 'x + 10'), R(1, 'x')))}))
    out.append(('rebind-from-previous-consuming', {'start': ('let', 'x', D, ('let', 'x', ('apply', T, ('py', 'lambda v: (v, x)')),
                                                                              ('seq', [R(1, 'x'), ('opt', ('str', '!'))])))}))
    out.append(('rebind-from-previous-repeated', {'start': ('star', ('let', 'x', D, ('let', 'x', ('py', 'x * 2'),
                                                                                       ('let', 'x', ('py', 'x + 1'), R(1, 'x')))))}))
    out.append(('rebind-param', {'start': ('seq', [('call', 'TP', [('num', '1')]), ('call', 'TP', [('py', '40')])]),
                                 'TP': None}))
    # predicates that answer with truthy / falsy non-bool values (ints incl. 0 and 3, strings, lists,
    # None), in tail position of a rule and in the middle of a sequence
    out.append(('where-truthy-int', {'start': ('where', ('re', '[ab]*', False), ('py', 'len'))}))
    out.append(('where-truthy-int-mid', {'start': ('seq', [('where', ('re', '[ab]*', False), ('py', 'lambda v: len(v) % 4')),
                                                              ('opt', ('str', '!'))])}))
    out.append(('where-truthy-value', {'start': ('star', ('ref', 'W')),
                                       'W': ('where', ('alt', [('re', '[ab]', False), ('right', ('str', '0'), ('py', "''"))]),
                                             ('py', 'lambda v: v'))}))
    out.append(('where-truthy-list', {'start': ('where', ('star', ('str', 'a')), ('py', 'lambda v: v'))}))
    out.append(('where-truthy-float-none', {'start': ('seq', [
        ('where', D, ('py', 'lambda n: n * 1.5 if n != 2 else None')), ('where', T, ('py', "lambda v: {'a': 3, 'b': 0}[v]"))])}))
    # a predicate that REJECTS a token written directly (not through a rule) where the enclosing
    # construct must restore the position: repetition element, non-last alternative, option, list
    # element, Skip operand, Longest option
    REJ_B = ('where', T, ('py', "lambda w: w != 'b'"))
    REST = ('re', '[ab]*', False)
    out.append(('where-token-star', {'start': ('seq', [('star', REJ_B), REST])}))
    out.append(('where-token-plus-alt', {'start': ('alt', [('seq', [('plus', REJ_B), ('str', '!')]), REST])}))
    out.append(('where-token-alt', {'start': ('seq', [('alt', [REJ_B, ('str', 'ba')]), REST])}))
    out.append(('where-token-opt', {'start': ('seq', [('opt', REJ_B), REST])}))
    out.append(('where-token-sep', {'start': ('seq', [('sep', REJ_B, ('str', ','), {'_op': '//'}), ('re', '[ab,]*', False)])}))
    out.append(('where-token-sep-separator', {'start': ('seq', [('sep', ('str', 'a'), ('where', ('re', '[,b]', False), ('py', "lambda w: w == ','")), {'_op': '/?'}),
                                                               ('re', '[ab,]*', False)])}))
    out.append(('where-token-skip', {'start': ('seq', [('skip', [REJ_B]), REST])}))
    out.append(('where-token-longest', {'start': ('seq', [('longest', [REJ_B, ('str', 'ba'), ('str', 'b')]), REST])}))
    out.append(('where-str-bounded', {'start': ('seq', [('rep', ('where', ('str', 'a'), ('py', 'lambda w: False')), 0, 2), REST])}))
    out.append(('where-token-expectnot', {'start': ('seq', [('expectnot', REJ_B), REST])}))
    # bindings to FRESH mutable values that inline Python mutates later in the same parse: every
    # evaluation (every parse, every attempt) gets its own object
    out.append(('fresh-list-let', {'start': ('let', 'seen', ('py', '[]'), ('seq', [
        ('star', ('apply', T, ('py', 'lambda w: (seen.append(w), len(seen))[1]'))), ('py', 'tuple(seen)')]))}))
    out.append(('fresh-set-let', {'start': ('let', 'seen', ('py', 'set()'), ('seq', [
        ('star', ('where', T, ('py', 'lambda w: w not in seen and not seen.add(w)'))), REST, ('py', 'sorted(seen)')]))}))
    out.append(('fresh-dict-let-alt', {'start': ('alt', [
        ('let', 'd', ('py', '{}'), ('seq', [('apply', T, ('py', "lambda w: d.setdefault(w, len(d))")), ('str', '!'), ('py', 'sorted(d.items())')])),
        ('let', 'd', ('py', '{}'), ('seq', [('star', ('apply', T, ('py', "lambda w: d.setdefault(w, len(d))"))), ('py', 'sorted(d.items())')]))])}))
    # lookahead binding then real binding
    out.append(('expect-then-bind', {'start': ('seq', [
        ('expect', ('let', 'x', ('str', 'a'), R(1, 'x'))), ('let', 'x', T, ('seq', [T, R(2, 'x')]))])}))
    # optional binding failing after bind
    out.append(('opt-bind-fail', {'start': ('let', 'y', T, ('seq', [
        ('opt', ('let', 'x', T, ('seq', [R(1, 'x', 'y'), ('str', '!')]))), ('re', '[ab]*', False), R(2, 'y')]))}))
    # counts
    out.append(('count-let', {'start': ('let', 'n', D, ('seq', [
        ('rep', ('str', 'a'), ('name', 'n'), ('name', 'n')), ('re', '[ab]*', False), R(1, 'n')]))}))
    # spilled helper functions: bound name read below 12 nested sequences
    deep = R(1, 'x', 'y')
    for _ in range(12):
        deep = ('seq', [deep])
    out.append(('deep-spill', {'start': ('let', 'x', T, ('let', 'y', T, deep))}))
    # 2 consecutive lets, alternatives inside body re-binding y
    out.append(('let-let-alt', {'start': ('let', 'x', T, ('alt', [
        ('let', 'y', ('str', 'a'), ('seq', [R(1, 'x', 'y'), ('str', '!')])),
        ('let', 'y', T, R(2, 'x', 'y')), R(3, 'x')]))}))
    return out


def curated_classes():
    T = ('re', '[ab]', False)
    D = ('apply', ('re', '[0-3]', False), ('py', 'int'))
    R = lambda n, *names: ('py', "('r%d', %s)" % (n, ', '.join(names)))
    out = []
    out.append(('class-members', [
        ('rule', 'start', None, ('plus', ('ref', 'P'))),
        ('class', 'P', None, [('field', 'a', T), ('let', 'n', D), ('field', 'items', ('rep', ('str', 'x'), ('name', 'n'), ('name', 'n'))),
                              ('pass', ('opt', ('str', ','))), ('field', 'b', ('py', 'a + str(n)')),
                              ('requires', 'len(items) == n and n < 3')])]))
    # fields (plain and let) handed on as BARE arguments -- values, not parsing expressions
    out.append(('class-bare-field-arguments', [
        ('rule', 'start', None, ('star', ('ref', 'Tg'))),
        ('class', 'Tg', None, [('field', 'open', T), ('let', 'n', D), ('field', 'body', ('call', 'Rep', [('ref', 'n')])),
                               ('field', 'close', ('call', 'Same', [('ref', 'open')])), ('field', 'both', ('call', 'Pair', [('kw', 'u', ('ref', 'open')), ('kw', 'v', ('ref', 'n'))]))]),
        ('rule', 'Same', ['t'], ('where', T, ('py', 'lambda w: w == t'))),
        ('rule', 'Pair', ['u', 'v'], ('py', '(u, v)')),
        ('rule', 'Rep', ['k'], ('rep', ('str', 'x'), ('name', 'k'), ('name', 'k')))]))
    out.append(('class-fresh-containers', [
        ('rule', 'start', None, ('star', ('ref', 'L'))),
        ('class', 'L', None, [('let', 'log', ('py', '[]')),
                              ('field', 'items', ('plus', ('apply', T, ('py', 'lambda w: (log.append(w), len(log))[1]')))),
                              ('field', 'a', ('py', '[]')), ('field', 'b', ('py', '[]')), ('field', 'same', ('py', 'a is b')),
                              ('pass', ('opt', ('str', ',')))])]))
    out.append(('class-where-token-star', [
        ('rule', 'start', None, ('seq', [('star', ('ref', 'Bd')), ('re', '[ab()]*', False)])),
        ('class', 'Bd', None, [('field', 'o', ('str', '(')), ('field', 'ws', ('star', ('where', T, ('py', "lambda w: w != 'b'")))),
                               ('field', 'c', ('opt', ('str', ')')))])]))
    out.append(('class-recursive', [
        ('rule', 'start', None, ('ref', 'Node')),
        ('class', 'Node', None, [('field', 'tag', T),
                                 ('field', 'kids', ('opt', ('right', ('str', '('), ('left', ('star', ('ref', 'Node')), ('str', ')'))))),
                                 ('field', 'echo', R(1, 'tag'))])]))
    out.append(('class-alt-rebind', [
        ('rule', 'start', None, ('star', ('ref', 'C'))),
        ('class', 'C', None, [('field', 'a', ('alt', [
            ('let', 't', ('str', 'a'), ('seq', [R(1, 't'), ('str', '!')])),
            ('let', 't', T, ('py', 't + t'))])), ('field', 'b', R(2, 'a'))])]))
    out.append(('class-tags', [
        ('rule', 'start', None, ('star', ('ref', 'E'))),
        ('class', 'E', None, [('field', 'open', ('right', ('str', '('), T)),
                              ('field', 'items', ('star', ('ref', 'E'))),
                              ('field', 'close', ('where', ('right', ('str', ')'), T), ('py', 'lambda v: v == open')))])]))
    out.append(('class-requires-truthy', [
        ('rule', 'start', None, ('star', ('ref', 'Rq'))),
        ('class', 'Rq', None, [('field', 'n', D), ('field', 'items', ('rep', ('str', 'x'), None, ('name', 'n'))),
                               ('requires', 'len(items)')]),
        ('class', 'Tail', None, [('field', 'n', D), ('requires', 'n')])]))
    # an expression handed to a template as argument reads several bound names, first used in every order
    import itertools
    for perm in itertools.permutations(['aa', 'mm', 'zz']):
        reads = [R(10 + i, n) for i, n in enumerate(perm)]
        ptag = ''.join(n[0] for n in perm)
        W = ('rule', 'W', ['p'], ('seq', [('ref', 'p'), ('opt', ('str', '!'))]))
        out.append(('arg-reads-lets-' + ptag, [
            ('rule', 'start', None, ('star', ('let', 'zz', T, ('let', 'aa', D, ('let', 'mm', ('opt', ('str', '-')),
                                     ('call', 'W', [('seq', [T] + reads)])))))), W]))
        out.append(('arg-reads-params-' + ptag, [
            ('rule', 'start', None, ('seq', [('call', 'Outer', [('py', "'z'"), ('py', '1'), ('py', "'m'")]),
                                             ('opt', ('call', 'Outer', [('py', "'Z'"), ('py', '2'), ('py', "'M'")]))])),
            ('rule', 'Outer', ['zz', 'aa', 'mm'], ('call', 'W', [('seq', [T] + reads)])), W]))
        out.append(('arg-reads-fields-' + ptag, [
            ('rule', 'start', None, ('star', ('ref', 'Rec'))),
            ('class', 'Rec', None, [('field', 'zz', T), ('let', 'aa', D), ('field', 'mm', ('opt', ('str', '-'))),
                                    ('field', 'got', ('call', 'W', [('seq', [T] + reads)]))]), W]))
    out.append(('arg-count-where', [
        ('rule', 'start', None, ('let', 'size', D, ('let', 'mark', T, ('call', 'Wb', [
            ('apply', ('rep', ('where', T, ('py', 'lambda t: t != mark')), ('name', 'size'), ('name', 'size')),
             ('py', 'lambda xs: (size, mark, xs)'))])))),
        ('rule', 'Wb', ['p'], ('right', ('str', '['), ('left', ('ref', 'p'), ('str', ']'))))]))
    # several requires members, adjacent and apart, whose conditions have low-precedence operators
    # (each condition is its own predicate: all must hold)
    out.append(('class-requires-adjacent', [
        ('rule', 'start', None, ('star', ('alt', [('ref', 'Pr'), ('ref', 'Cd'), ('ref', 'Lm'), D]))),
        ('class', 'Pr', None, [('pass', ('str', 'p')), ('field', 'a', D), ('field', 'b', D), ('requires', 'a == 0 or b == 0'), ('requires', 'a != b')]),
        ('class', 'Cd', None, [('pass', ('str', 'c')), ('field', 'a', D), ('field', 'b', D), ('requires', 'a if b else 1'), ('requires', 'b or a'),
                               ('field', 'c', ('opt', ('str', '!'))), ('requires', 'a < 3 or c')]),
        ('class', 'Lm', None, [('pass', ('str', 'l')), ('field', 'a', D), ('requires', 'a != 1'), ('field', 'b', D), ('requires', 'not a or b'), ('requires', 'a + b != 5')])]))
    # let members (and kept fields) of a class read inside an expression handed to a template: in inline
    # Python, a where predicate, a count, a |> function
    Wp = ('rule', 'Wp', ['p'], ('right', ('str', '('), ('left', ('ref', 'p'), ('str', ')'))))
    out.append(('class-let-in-argument', [
        ('rule', 'start', None, ('star', ('alt', [('ref', 'La'), ('ref', 'Lb'), ('ref', 'Lc')]))),
        ('class', 'La', None, [('pass', ('str', 'x')), ('let', 'lf', T), ('field', 'a', ('call', 'Wp', [('where', T, ('py', 'lambda w: w != lf'))])),
                               ('field', 'b', ('call', 'Wp', [('seq', [T, R(1, 'lf')])]))]),
        ('class', 'Lb', None, [('pass', ('str', 'y')), ('let', 'n', D), ('field', 'kept', T), ('field', 'a', ('call', 'Wp', [('rep', ('str', 'a'), ('name', 'n'), ('name', 'n'))])),
                               ('field', 'b', ('call', 'Wp', [('apply', T, ('py', 'lambda v: (v, kept, n)'))]))]),
        ('class', 'Lc', None, [('pass', ('str', 'z')), ('let', 'type', T), ('field', 'a', ('call', 'Wp', [('where', T, ('py', 'lambda w: w == type'))]))]),
        Wp]))
    # a requires condition is checked where it stands: before later members re-bind a name it mentions,
    # and before later inline Python that it guards
    out.append(('class-requires-position', [
        ('rule', 'start', None, ('star', ('alt', [('ref', 'Ra'), ('ref', 'Rb'), ('ref', 'Rc'), D]))),
        ('class', 'Ra', None, [('pass', ('str', 'r')), ('let', 'n', D), ('requires', 'n > 0'), ('let', 'n', ('py', 'n - 1')), ('field', 'v', ('py', 'n'))]),
        ('class', 'Rb', None, [('pass', ('str', 's')), ('field', 'a', D), ('field', 'b', D), ('requires', 'b != 0'), ('field', 'q', ('py', 'a // b'))]),
        ('class', 'Rc', None, [('pass', ('str', 't')), ('let', 'k', D), ('requires', 'k % 2 == 0'), ('let', 'k', ('py', 'k * 2 + 1')), ('field', 'v', ('py', 'k')),
                               ('requires', 'k > 1')])]))
    out.append(('class-param', [
        ('rule', 'start', None, ('let', 'k', D, ('seq', [('call', 'Q', [('ref', 'k'), ('str', 'a')]), ('opt', ('call', 'Q', [('py', 'k + 1'), ('str', 'b')]))]))),
        ('class', 'Q', ['n', 'p'], [('field', 'items', ('rep', ('ref', 'p'), ('name', 'n'), ('name', 'n'))),
                                    ('field', 'seen', R(1, 'n', 'p'))])]))
    return out


def curated_shadow():
    """Decided by 'never a value from an abandoned alternative': an inner binding of the same
    name made inside an alternative / option that is then abandoned must not be visible to the
    later read of the outer binding.  (Each shape has a twin with a different inner name in the
    regular workload.)"""
    T = ('re', '[ab]', False)
    R = lambda n, *names: ('py', "('r%d', %s)" % (n, ', '.join(names)))
    out = []
    for inner in ('x', 'w'):
        tag = 'shadow' if inner == 'x' else 'twin'
        out.append((tag + '-alt', {'start': ('let', 'x', T, ('alt', [
            ('let', inner, ('str', 'a'), ('seq', [R(1, inner), ('str', '!')])), R(2, 'x')]))}))
        out.append((tag + '-opt', {'start': ('let', 'x', T, ('seq', [
            ('opt', ('let', inner, ('str', 'a'), ('str', '!'))), ('re', '[ab]*', False), R(1, 'x')]))}))
        out.append((tag + '-expectnot', {'start': ('let', 'x', T, ('seq', [
            ('expectnot', ('let', inner, ('str', 'a'), ('str', '!'))), ('re', '[ab]*', False), R(1, 'x')]))}))
    return out


def value_has_read(v):
    stack = [v]
    while stack:
        x = stack.pop()
        if isinstance(x, tuple):
            if x and isinstance(x[0], str) and len(x[0]) > 1 and x[0][0] in 'rabl' and x[0][1:].isdigit():
                return True
            stack.extend(x)
        elif isinstance(x, list):
            stack.extend(x)
    return False


def nontrivial(exp, o, model):
    if model.undo:
        return True
    return exp[0] in ('value', 'partial') and value_has_read(exp[1])


def sig_for(G, tag=None):
    # the known finding is scoped to the three curated grammars in which an *abandoned* branch
    # re-binds an outer name; other nested re-bindings (tail re-binding from the previous value) are
    # decided by the statement, work, and are ordinary cases
    if tag is not None:
        return 'shadow-overwrite-abandoned:' if str(tag[-1]).startswith('shadow-') else ''
    return 'shadow-overwrite-abandoned:' if is_curated_shadow(G) else ''


def is_curated_shadow(G):
    descs = {gast.render_grammar(gast.simple_grammar(rules)) for tag, rules in curated_shadow() if tag.startswith('shadow-')}
    return gast.render_grammar(G) in descs


EXTRA_INPUTS = {
    # every pair of digits behind every class letter (the requires conditions are decided by the pair)
    'class-requires-adjacent': [h + x + y + t for h in 'pcl' for x in '0123' for y in '0123' for t in ('', '!')] +
                               ['p00p01', 'c10!c00', 'l23l32', 'p01 ', '3p10'],
    'class-let-in-argument': ['xa(b)(a)', 'xa(a)(b)', 'xb(a)(b)', 'y2a(aa)(b)', 'y0b()(a)', 'y1a(a)(a)', 'y1a(aa)(a)', 'za(a)', 'za(b)', 'xa(b)(a)y1b(a)(b)za(a)'],
    'class-requires-position': [h + x for h in 'rt' for x in '0123'] + ['s' + x + y for x in '0123' for y in '0123'] + ['r1r0', 's10s11', 't2t1', 's', 'r', 't0'],
}


# curated shapes the static analysis is too conservative for (a parameter under a repetition whose
# every argument consumes): the reference model still re-checks progress dynamically on every input
TRUSTED = {'class-param'}


def inconclusive(counters, evaluations, tier):
    if counters.get('curated_shapes_dropped', 0):
        return ['%d curated shape(s) were dropped by the generator-side analysis and never ran' % counters['curated_shapes_dropped']]
    return []


def run_one(rec, G, tag, rounds, trace=False):
    curated_tag = tag[1] if isinstance(tag, tuple) and tag[0] == 'curated' else None
    if curated_tag not in TRUSTED and not gen.well_formed(G):
        rec.drop()
        if curated_tag is not None:
            # a curated shape must never disappear silently
            rec.count('curated_shapes_dropped')
            rec.note('curated shape dropped by the well-formedness analysis: %s' % (curated_tag,))
        return
    try:
        chain = diff.refpeg.build_chain([G])
    except Exception:
        rec.drop()
        return
    ins = work.guided_inputs(rec.rng, chain, work.grammar_alphabet(G, '!'), rounds=rounds)
    if isinstance(tag, tuple) and len(tag) > 1:
        ins = ins + [t for t in EXTRA_INPUTS.get(tag[1], []) if t not in ins]
    entries = [e for e in work.rule_entries(G) if e != 'Tok']
    work.run_grammar(rec, G, ins, tag, entries=entries if len(entries) <= 3 else entries[:3],
                     nontrivial=nontrivial, sigprefix=sig_for(G, tag if isinstance(tag, tuple) else None), trace=trace)


def run_shard(rec):
    quick = rec.tier == 'quick'
    rec.deadline = time.time() + (300 if quick else 900)
    idx = 0
    rounds = 250 if quick else 1200
    for tag, rules in curated():
        idx += 1
        if rec.mine(idx):
            G = gast.simple_grammar({k: v for k, v in rules.items() if v is not None})
            if tag == 'rebind-param':
                G['stmts'].append(('rule', 'TP', ['p'], ('let', 'p', ('py', 'p + 1'), ('seq', [('re', '[ab]', False), ('py', "('r9', p)")]))))
            run_one(rec, G, ('curated', tag), rounds * 2, trace=True)
    for tag, stmts in curated_classes():
        idx += 1
        if rec.mine(idx):
            run_one(rec, dict(name=None, extends=None, stmts=stmts), ('curated', tag), rounds * 2, trace=True)
        # the same through a grammar installed under a name (bound names vs. the parsing context)
        idx += 1
        if rec.mine(idx):
            run_one(rec, dict(name=diff.unique_name('vt_c05'), extends=None, stmts=stmts), ('curated', tag, 'named'), rounds)
    for tag, rules in curated_shadow():
        idx += 1
        if rec.mine(idx):
            run_one(rec, gast.simple_grammar(rules), ('curated', tag), rounds)
    n = 120 if quick else 2500
    for i in range(n):
        if rec.out_of_time():
            rec.count('cut_by_time')
            break
        pg = proggen.ProgGen(rec.rng, nested_shadow=False, maxdepth=rec.rng.randint(3, 5))
        G = pg.grammar()
        if proggen.has_nested_shadow(G):
            rec.drop()
            continue
        run_one(rec, G, ('random',), rounds, trace=(i % 4 == 0))


def replay(rec, rep):
    import ast
    case = rep['case']
    G = ast.literal_eval(case['grammars_repr'])[0]
    if case.get('trace'):
        return work.replay_trace(rec, case)
    diff.replay_diff(rec, case, monitors=('value',), sigprefix=sig_for(G))
