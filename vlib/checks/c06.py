"""C06 -- parameterised rules behave like their expansion.

Monitors: (a) boundary recorder vs reference model with closures; (b) macro-
expansion differential, real vs real: the harness expands every non-recursive
template call textually, compiles both descriptions with the real sourcer and
compares outcomes; (c) outcome classifier: nothing but InputError may escape."""
import itertools
import time

from .. import gast, gen, diff, work, observe, refpeg

ID = 'C06'


def plan(tier, seed):
    return dict(
        shards=16,
        rule='template bodies (parameter used as parser once / twice / under repetition / in lookahead, as '
             'value, as both, as count; rule and class templates) x argument shapes (string, "s"i, regex, '
             'byte, choice, sequence, repetition, reference, nested call, bare bound name, compound '
             'mentioning call-site names, inline Python int/str/tuple/list/dict/None, number) x calling '
             'convention (positional / keyword / mixed / reordered) x {unnamed, named grammar}; nested and '
             'recursive instantiation; the same template at one position with different arguments; plus '
             'random programs with templates.  Non-trivial = distinct (description,input) on which a '
             'template body ran in the model (>= 1 call event).',
        assumptions=['reference model E1 with closures', 'macro expansion is applied to non-recursive '
                     'templates whose bodies bind no name that an argument mentions'],
    )


def inconclusive(counters, evaluations, tier):
    out = []
    if counters.get('expansion_pairs', 0) == 0:
        out.append('macro-expansion differential evaluated nothing')
    return out


T = ('re', '[ab]', False)

# template bodies: name -> (params, kinds, body)   kinds: P parser, V value, K int, B both (string literal)
BODIES = {
    'TP1': (['p'], 'P', ('seq', [('ref', 'p'), ('str', '!')])),
    'TP2': (['p'], 'P', ('plus', ('ref', 'p'))),
    'TP3': (['p'], 'P', ('seq', [('ref', 'p'), ('opt', ('ref', 'p'))])),
    'TP4': (['p'], 'P', ('right', ('expect', ('ref', 'p')), ('ref', 'p'))),
    'TP5': (['p'], 'P', ('alt', [('seq', [('ref', 'p'), ('str', '!')]), ('seq', [('ref', 'p'), ('ref', 'p')]), T])),
    'TV1': (['v'], 'V', ('seq', [T, ('py', "('seen', v)")])),
    'TV2': (['v'], 'V', ('apply', T, ('py', 'lambda x: (x, v)'))),
    'TB1': (['s'], 'B', ('seq', [('ref', 's'), ('py', "('val', s)")])),
    'TK1': (['k'], 'K', ('rep', ('str', 'a'), ('name', 'k'), ('name', 'k'))),
    'TPK': (['p', 'k'], 'PK', ('seq', [('rep', ('ref', 'p'), None, ('name', 'k')), ('py', 'k')])),
    'TPV': (['p', 'v'], 'PV', ('seq', [('ref', 'p'), ('py', "('pv', v)")])),
}
CLASS_BODIES = {
    'CP': (['p', 'v'], 'PV', [('field', 'a', ('ref', 'p')), ('field', 'b', ('py', "('cv', v)"))]),
    'CK': (['k'], 'K', [('field', 'items', ('rep', T, ('name', 'k'), ('name', 'k'))), ('let', 'm', ('py', 'k + 1')),
                        ('field', 'n', ('py', 'm'))]),
}

PARSER_ARGS = [
    ('str', ('str', 'a')), ('str2', ('str', 'ab')), ('istr', ('istr', 'a')), ('re', T),
    ('alt', ('alt', [('str', 'a'), ('str', 'bb')])), ('seq', ('seq', [('str', 'a'), ('str', 'b')])),
    ('plus', ('plus', ('str', 'a'))), ('ref', ('ref', 'Tok')), ('refseq', ('ref', 'AB')),
    ('call', ('call', 'TP1', [('str', 'a')])), ('opt', ('opt', ('str', 'a'))),
    ('expectseq', ('seq', [('expect', ('str', 'a')), T])),
]
VALUE_ARGS = [
    ('int', ('py', '7')), ('str', ('py', "'s'")), ('tuple', ('py', '(1, 2)')), ('list', ('py', '[1, 2]')),
    ('dict', ('py', "{'k': [1]}")), ('none', ('py', 'None')), ('num', ('num', '3')), ('true', ('num', 'True')),
    ('float', ('py', '1.5')),
    # unhashable values other than list / dict
    ('set', ('py', '{1, 2}')), ('bytearray', ('py', "bytearray(b'x')")),
]
INT_ARGS = [('num0', ('num', '0')), ('num2', ('num', '2')), ('py1', ('py', '1')), ('pyexpr', ('py', '1 + 1'))]
STR_ARGS = [('a', ('str', 'a')), ('ab', ('str', 'ab'))]

EXTRA_RULES = [('rule', 'Tok', None, T), ('rule', 'AB', None, ('seq', [('str', 'a'), ('str', 'b')]))]


def template_stmt(name):
    if name in BODIES:
        params, kinds, body = BODIES[name]
        return ('rule', name, params, body)
    params, kinds, members = CLASS_BODIES[name]
    return ('class', name, params, members)


def calls_for(name):
    """(tag, [args...]) for one template, crossing argument shapes."""
    params, kinds, _ = BODIES.get(name) or CLASS_BODIES[name]
    pools = []
    for kd in kinds:
        pools.append({'P': PARSER_ARGS, 'V': VALUE_ARGS, 'K': INT_ARGS, 'B': STR_ARGS}[kd])
    for combo in itertools.product(*pools):
        yield '+'.join(c[0] for c in combo), [c[1] for c in combo]


def conventions(params, args):
    yield 'positional', list(args)
    yield 'keyword', [('kw', p, a) for p, a in zip(params, args)]
    if len(params) > 1:
        yield 'reordered', [('kw', p, a) for p, a in reversed(list(zip(params, args)))]
        yield 'mixed', [args[0]] + [('kw', p, a) for p, a in list(zip(params, args))[1:]]


def uses(stmts_exprs, name):
    return any(e[0] == 'call' and e[1] == name for top in stmts_exprs for e in gast.walk(top))


def build_grammar(start_body, templates, named=None):
    stmts = [('rule', 'start', None, start_body)]
    need = set(templates)
    # nested calls inside arguments
    for e in gast.walk(start_body):
        if e[0] == 'call':
            need.add(e[1])
    changed = True
    while changed:
        changed = False
        for n in list(need):
            st = template_stmt(n) if (n in BODIES or n in CLASS_BODIES) else None
            if st is None:
                continue
            exprs = [st[3]] if st[0] == 'rule' else [m[2] if m[0] in ('field', 'let') else m[1] for m in st[3] if m[0] != 'requires']
            for top in exprs:
                for e in gast.walk(top):
                    if e[0] == 'call' and e[1] not in need:
                        need.add(e[1])
                        changed = True
    for n in sorted(need):
        if n in BODIES or n in CLASS_BODIES:
            stmts.append(template_stmt(n))
    stmts.extend(EXTRA_RULES)
    return dict(name=named, extends=None, stmts=stmts)


# -- macro expansion (harness side) --------------------------------------------

class NoExpansion(Exception):
    pass


def expand_grammar(G):
    """Returns a grammar without template calls, or raises NoExpansion."""
    templates = {}
    for s in G['stmts']:
        if s[0] == 'rule' and s[2] is not None:
            templates[s[1]] = s
        elif s[0] == 'class' and s[2] is not None:
            templates[s[1]] = s
    new_classes = []
    counter = itertools.count(1)

    def subst(e, penv, depth):
        """penv: parser-param name -> replacement expr."""
        if depth > 6:
            raise NoExpansion('recursive')
        k = e[0]
        if k == 'ref' and e[1] in penv:
            return penv[e[1]]
        if k == 'call':
            if e[1] in penv:
                # a parameter bound to a template, called with arguments
                tgt = penv[e[1]]
                if tgt[0] == 'ref' and tgt[1] in templates:
                    e = ('call', tgt[1], e[2])
                else:
                    raise NoExpansion('call through a parameter that is not a template')
            return expand_call(e, penv, depth)
        return gen.map_children(e, lambda c: subst(c, penv, depth))

    def expand_call(e, penv, depth):
        t = templates.get(e[1])
        if t is None:
            raise NoExpansion('unknown template')
        params = t[2]
        bound = {}
        pos = list(params)
        for a in e[2]:
            if isinstance(a, tuple) and a and a[0] == 'kw':
                bound[a[1]] = subst(a[2], penv, depth)
                pos.remove(a[1])
            else:
                bound[pos.pop(0)] = subst(a, penv, depth)
        # alpha-rename the parameters per instantiation (also inside inline Python and counts), so
        # that binding them one after the other cannot capture a call-site name that an argument
        # mentions -- T1(k0, k1) = T0(`k1`, `k0`) swaps, it does not alias
        from .c20 import rename_expr, rename_python
        n_inst = next(counter)
        fresh = {p: '%s__i%d' % (p, n_inst) for p in params}
        if t[0] == 'rule':
            # the body's own let names too: inlined into the caller's function they would otherwise
            # shadow (and, by the known function-scope mechanism, overwrite) a call-site name
            for x in gast.walk(t[3]):
                if x[0] == 'let' and x[1] not in fresh:
                    fresh[x[1]] = '%s__i%d' % (x[1], n_inst)
        bound = {fresh[p]: a for p, a in bound.items()}
        if t[0] == 'rule':
            t = ('rule', t[1], [fresh[p] for p in params], rename_expr(t[3], fresh))
        else:
            ms = []
            for m in t[3]:
                if m[0] in ('field', 'let'):
                    ms.append((m[0], m[1], rename_expr(m[2], fresh)))
                elif m[0] == 'pass':
                    ms.append(('pass', rename_expr(m[1], fresh)))
                else:
                    ms.append(('requires', rename_python(m[1], fresh)))
            t = ('class', t[1], [fresh[p] for p in params], ms)
        params = t[2]
        new_penv = {}
        lets = []
        for p in params:
            a = bound[p]
            if a[0] in ('py', 'num'):
                lets.append((p, a))
            elif a[0] in ('str', 'bstr', 'byte'):
                new_penv[p] = a
                lets.append((p, ('py', repr(a[1]))))
            elif a[0] == 'ref' and a[1] not in rule_names:
                # bare bound name: a value
                lets.append((p, ('py', a[1])))
            else:
                new_penv[p] = a
        if t[0] == 'rule':
            body = subst(t[3], new_penv, depth + 1)
            for p, a in reversed(lets):
                body = ('let', p, a, body)
            return body
        # class template: a fresh parameterless class per instantiation, lets as `let` members
        cname = '%s__%d' % (t[1], next(counter))
        members = [('let', p, a) for p, a in lets]
        for m in t[3]:
            if m[0] in ('field', 'let'):
                members.append((m[0], m[1], subst(m[2], new_penv, depth + 1)))
            elif m[0] == 'pass':
                members.append(('pass', subst(m[1], new_penv, depth + 1)))
            else:
                members.append(m)
        new_classes.append(('class', cname, None, members))
        return ('ref', cname)

    rule_names = {s[1] for s in G['stmts'] if s[0] in ('rule', 'class', 'irule')}
    stmts = []
    for s in G['stmts']:
        if s[0] == 'rule' and s[2] is None:
            stmts.append(('rule', s[1], None, subst(s[3], {}, 0)))
        elif s[0] == 'class' and s[2] is None:
            ms = []
            for m in s[3]:
                if m[0] in ('field', 'let'):
                    ms.append((m[0], m[1], subst(m[2], {}, 0)))
                elif m[0] == 'pass':
                    ms.append(('pass', subst(m[1], {}, 0)))
                else:
                    ms.append(m)
            stmts.append(('class', s[1], None, ms))
        elif s[0] in ('rule', 'class'):
            continue
        else:
            stmts.append(s)
    return dict(name=None, extends=None, stmts=stmts + new_classes)


def strip_class_suffix(v):
    if isinstance(v, tuple) and v and v[0] == 'obj':
        return ('obj', v[1].split('__')[0], tuple((f, strip_class_suffix(x)) for f, x in v[2]), v[3])
    if isinstance(v, list):
        return [strip_class_suffix(x) for x in v]
    if isinstance(v, tuple):
        return tuple(strip_class_suffix(x) for x in v)
    return v


def norm_outcome(o):
    if o[0] == 'value':
        return ('value', strip_class_suffix(o[1]))
    if o[0] == 'partial':
        return ('partial', strip_class_suffix(o[1]), o[2])
    return o


# -- known-finding signature classes ---------------------------------------------

def arg_mentions_site_names_in_python(G):
    """An argument expression whose inline Python / count mentions a name bound at
    the call site (let, parameter): the closure does not capture it."""
    def scan(e, bound):
        k = e[0]
        if k == 'let':
            return scan(e[2], bound) or scan(e[3], bound | {e[1]})
        if k == 'call':
            for a in e[2]:
                ax = a[2] if (isinstance(a, tuple) and a and a[0] == 'kw') else a
                if ax[0] in ('py', 'num', 'ref', 'str', 'bstr', 'byte'):
                    continue
                for x in gast.walk(ax):
                    if x[0] == 'py' and any(_mentions(x[1], b) for b in bound):
                        return True
                    if x[0] == 'rep':
                        for bnd in (x[2], x[3]):
                            if isinstance(bnd, tuple) and any(_mentions(bnd[1], b) for b in bound):
                                return True
        return any(scan(c, bound) for c in gast.children(e))

    for s in G['stmts']:
        if s[0] == 'rule' and scan(s[3], set(s[2] or ())):
            return True
        if s[0] == 'class':
            bound = set(s[2] or ())
            for m in s[3]:
                ex = m[2] if m[0] in ('field', 'let') else (m[1] if m[0] == 'pass' else None)
                if ex is not None and scan(ex, bound):
                    return True
                if m[0] in ('field', 'let'):
                    bound = bound | {m[1]}
    return False


def _mentions(src, name):
    import re
    return re.search(r'\b%s\b' % re.escape(name), src) is not None


def equal_args_of_different_type(G):
    """Two calls of one template whose value arguments are == but differ in type."""
    calls = {}
    for top in gast.grammar_exprs(G):
        for e in gast.walk(top):
            if e[0] == 'call':
                vals = []
                for a in e[2]:
                    ax = a[2] if (isinstance(a, tuple) and a and a[0] == 'kw') else a
                    if ax[0] in ('py', 'num'):
                        try:
                            vals.append(eval(ax[1], {}))
                        except Exception:
                            vals.append(object())
                calls.setdefault(e[1], []).append(vals)
    for name, lst in calls.items():
        for a, b in itertools.combinations(lst, 2):
            try:
                if a == b and repr(a) != repr(b):
                    return True
            except Exception:
                pass
    return False


def sig_for(G):
    # (arguments whose inline Python mentions call-site names were a known finding until the
    # free-variable fix in /repo; they are ordinary cases now)
    if equal_args_of_different_type(G):
        return 'equal-arg-conflation:'
    return ''


# -- running ----------------------------------------------------------------------

def run_one(rec, G, tag, inputs=None, rounds=150, expand=True, trusted=False):
    # curated shapes are trusted: the static analysis is conservative about parameters under a
    # repetition (it dropped seven of them silently), while the reference model re-checks progress
    # dynamically on every input before the real code runs
    if not trusted and not gen.well_formed(G):
        rec.drop()
        return
    sp = sig_for(G)
    b = diff.build(rec, G, sigprefix=sp)
    if b is None:
        return
    rec.count('descriptions')
    bytes_mode = any(e[0] in ('bstr', 'bistr', 'bre', 'byte') for top in gast.grammar_exprs(G) for e in gast.walk(top))
    if inputs is None:
        if bytes_mode:
            inputs = [t.encode() for t in gen.all_strings(work.grammar_alphabet(G, '!'), 4)]
        else:
            inputs = work.guided_inputs(rec.rng, b.chain, work.grammar_alphabet(G, '!'), rounds=rounds)
    bx = None
    if expand:
        try:
            GX = expand_grammar(G)
            if trusted or gen.well_formed(GX):
                bx = diff.build(rec, GX, sigprefix=sp + 'expanded-', report=False)
                if bx is None:
                    rec.count('expansion_uncompilable')
        except NoExpansion:
            rec.count('expansion_skipped')
    desc = b.descs[-1]
    for text in inputs:
        r = diff.compare(rec, b, text, None, monitors=('value',), sigprefix=sp, extra_case=dict(tag=str(tag)))
        if r is None:
            continue
        exp, o, model = r
        if exp[0] != 'error' or model.steps > 3:
            rec.nontrivial((desc, text))
        if bx is not None:
            o2 = observe.observe(bx.g, text)
            rec.count('expansion_pairs')
            if not observe.same_outcome(norm_outcome(o.outcome), norm_outcome(o2.outcome)):
                rec.violation('%sexpansion:%s->%s' % (sp, observe.outcome_class(o2.outcome),
                                                      observe.outcome_class(o.outcome)),
                              'macro-expansion differential (real vs real)',
                              diff.case_dict(b, text, None, 0, True, tag=str(tag), expanded=bx.descs[-1]),
                              ('expanded', o2.outcome), ('template', o.outcome))
    rec.sample(dict(description=desc, inputs=len(inputs), tag=str(tag),
                    expanded=bx.descs[-1] if bx else None), limit=2)
    b.cleanup()
    if bx:
        bx.cleanup()


def curated_special():
    """Nested / recursive instantiation, same template at one position, bound-name arguments."""
    R = lambda n, *names: ('py', "('r%d', %s)" % (n, ', '.join(names)))
    D = ('apply', ('re', '[0-3]', False), ('py', 'int'))
    out = []
    # recursive with computed argument
    out.append(('recursive-depth', [
        ('rule', 'start', None, ('call', 'N', [('num', '0')])),
        ('rule', 'N', ['d'], ('alt', [('right', ('str', '('), ('left', ('call', 'N', [('py', 'd + 1')]), ('str', ')'))),
                                      ('right', ('str', 'x'), ('py', 'd'))]))]))
    # same template, same position, different arguments
    out.append(('same-pos-alt', [
        ('rule', 'start', None, ('alt', [('call', 'W', [('str', 'a')]), ('call', 'W', [('str', 'ab')]), ('call', 'W', [T])])),
        ('rule', 'W', ['p'], ('seq', [('ref', 'p'), ('str', '!')]))]))
    out.append(('same-pos-expect', [
        ('rule', 'start', None, ('seq', [('expect', ('call', 'V', [('py', "'x'")])), ('call', 'V', [('py', "'y'")])])),
        ('rule', 'V', ['v'], ('seq', [T, ('py', 'v')]))]))
    out.append(('same-pos-int-vs-str', [
        ('rule', 'start', None, ('seq', [('expect', ('call', 'V', [('py', '1')])), ('call', 'V', [('py', "'1'")])])),
        ('rule', 'V', ['v'], ('seq', [T, ('py', 'v')]))]))
    # a let inside an ARGUMENT expression re-binds a name of the call site (a parameter, a let variable)
    # and works the new value out from the old one
    out.append(('rebind-param-in-argument', [
        ('rule', 'start', None, ('call', 'F', [('str', 'a')])),
        ('rule', 'F', ['x'], ('call', 'W', [('let', 'x', ('seq', [('ref', 'x'), ('str', '!')]), ('py', 'x'))])),
        ('rule', 'W', ['p'], ('seq', [('ref', 'p'), ('opt', ('str', 'b'))]))]))
    out.append(('rebind-value-in-argument', [
        ('rule', 'start', None, ('call', 'F', [('py', '1')])),
        ('rule', 'F', ['v'], ('call', 'W', [('let', 'v', ('py', 'v + 1'), ('seq', [T, ('py', 'v')]))])),
        ('rule', 'W', ['p'], ('seq', [('ref', 'p'), ('opt', ('str', 'b'))]))]))
    out.append(('rebind-let-in-argument', [
        ('rule', 'start', None, ('let', 'w', T, ('call', 'W', [('let', 'w', ('py', "w + '?'"), ('seq', [T, ('py', 'w')]))]))),
        ('rule', 'W', ['p'], ('seq', [('ref', 'p'), ('opt', ('str', 'b'))]))]))
    # a call NESTED in an argument receives a name bound at the call site as a bare argument: a field,
    # a let variable, a parameter
    SAME = ('rule', 'Same', ['t'], ('where', T, ('py', 'lambda w: w == t')))
    WRAPQ = ('rule', 'WrapQ', ['e'], ('right', ('str', '('), ('left', ('ref', 'e'), ('str', ')'))))
    out.append(('nested-call-bare-field', [
        ('rule', 'start', None, ('ref', 'Elem')),
        ('class', 'Elem', None, [('field', 'tag', T), ('field', 'body', ('call', 'WrapQ', [('call', 'Same', [('ref', 'tag')])]))]),
        SAME, WRAPQ]))
    out.append(('nested-call-bare-let', [
        ('rule', 'start', None, ('let', 'tag', T, ('call', 'WrapQ', [('call', 'Same', [('ref', 'tag')])]))),
        SAME, WRAPQ]))
    out.append(('nested-call-bare-param', [
        ('rule', 'start', None, ('call', 'Outer', [('py', "'a'")])),
        ('rule', 'Outer', ['tag'], ('call', 'WrapQ', [('call', 'Same', [('ref', 'tag')])])),
        SAME, WRAPQ]))
    out.append(('nested-call-bare-field-compound', [
        ('rule', 'start', None, ('ref', 'Elem')),
        ('class', 'Elem', None, [('field', 'tag', T), ('field', 'body', ('call', 'WrapQ', [('alt', [('call', 'Same', [('ref', 'tag')]), ('str', '-')])]))]),
        SAME, WRAPQ]))
    # the same template at one position with arguments that are unequal but hash alike (hash(-1) ==
    # hash(-2); the memo's XOR hash of a list ignores the order), positional and by keyword
    for htag, v1, v2 in (('minus', '-1', '-2'), ('perm', '[0, 1]', '[1, 0]'), ('nested-perm', "{'k': [1, 2]}", "{'k': [2, 1]}"), ('tuple-perm', '(1, 2)', '(2, 1)')):
        for ctag, mk in (('pos', lambda x: ('py', x)), ('kw', lambda x: ('kw', 'v', ('py', x)))):
            out.append(('same-pos-hash-equal-%s-%s' % (htag, ctag), [
                ('rule', 'start', None, ('seq', [('expect', ('call', 'V', [mk(v1)])), ('call', 'V', [mk(v2)])])),
                ('rule', 'V', ['v'], ('seq', [T, ('py', 'v')]))]))
            out.append(('same-pos-hash-equal-alt-%s-%s' % (htag, ctag), [
                ('rule', 'start', None, ('alt', [('seq', [('call', 'K', [T, mk(v1)]), ('str', '!')]), ('call', 'K', [T, mk(v2)])])),
                ('rule', 'K', ['p', 'v'], ('seq', [('ref', 'p'), ('py', "('k', v)")]))]))
    # the same literal handed to a template at several call sites of one rule, the textually first site
    # in a part that may be skipped (another alternative, an option, a repetition)
    for ltag, lit in (('str', ('str', 'a')), ('str2', ('str', 'ab')), ('regex', ('re', 'a', False))):
        Wl = ('call', 'W', [lit])
        X = lambda c: ('right', ('str', c), Wl)
        for stag, body in (('alt', ('alt', [X('x'), X('y'), Wl])),
                           ('opt', ('seq', [('opt', X('x')), Wl])),
                           ('star', ('seq', [('star', X('x')), Wl, ('opt', X('y'))])),
                           ('loop', ('star', ('alt', [X('x'), Wl]))),
                           ('lookahead', ('seq', [('expectnot', X('x')), ('opt', ('str', 'y')), Wl]))):
            out.append(('same-literal-sites-%s-%s' % (ltag, stag), [
                ('rule', 'start', None, body),
                ('rule', 'W', ['p'], ('seq', [('ref', 'p'), ('opt', ('str', '!'))]))]))
    # a call nested in a call: the inner call (and the inline Python among its arguments) happens where
    # and when the outer body uses the parameter -- not at all when it does not
    out.append(('nested-call-lazy', [
        ('rule', 'start', None, ('let', 'n', ('opt', ('left', D, ('str', ':'))), ('call', 'Guarded', [('call', 'Take', [('py', 'n * 2')])]))),
        ('rule', 'Guarded', ['p'], ('alt', [('str', '~'), ('ref', 'p')])),
        ('rule', 'Take', ['k'], ('rep', ('str', 'a'), ('name', 'k'), ('name', 'k')))]))
    out.append(('nested-call-lazy-kw', [
        ('rule', 'start', None, ('let', 'n', ('opt', ('left', D, ('str', ':'))), ('seq', [('call', 'Guarded', [('kw', 'p', ('call', 'Take', [('kw', 'k', ('py', 'n + 1'))]))]), ('opt', ('str', '!'))]))),
        ('rule', 'Guarded', ['p'], ('alt', [('str', '~'), ('seq', [('ref', 'p'), ('opt', ('ref', 'p'))])])),
        ('rule', 'Take', ['k'], ('rep', ('str', 'a'), ('name', 'k'), ('name', 'k')))]))
    out.append(('nested-call-lazy-side-effect', [
        ('rule', 'start', None, ('let', 'xs', ('py', '[]'), ('seq', [('call', 'Guarded', [('call', 'Note', [('py', "xs.append('evaluated') or 'a'")])]), ('py', 'list(xs)')]))),
        ('rule', 'Guarded', ['p'], ('alt', [('str', '~'), ('ref', 'p')])),
        ('rule', 'Note', ['v'], ('seq', [T, ('py', 'v')]))]))
    # bare bound names as arguments: let, field, parameter
    out.append(('bound-let', [
        ('rule', 'start', None, ('let', 'q', T, ('seq', [('call', 'V', [('ref', 'q')]), ('call', 'V', [('py', 'q + q')])]))),
        ('rule', 'V', ['v'], ('seq', [T, ('py', "('v', v)")]))]))
    out.append(('bound-list', [
        ('rule', 'start', None, ('let', 'xs', ('star', ('str', 'a')), ('seq', [('call', 'V', [('ref', 'xs')]), ('str', '!')]))),
        ('rule', 'V', ['v'], ('seq', [T, ('py', "('v', v)")]))]))
    out.append(('bound-field', [
        ('class', 'start', None, [('field', 'a', T), ('field', 'b', ('call', 'V', [('ref', 'a')])),
                                  ('field', 'c', ('call', 'K', [('kw', 'k', ('py', 'len(b)'))]))]),
        ('rule', 'V', ['v'], ('seq', [T, ('py', "('v', v)")])),
        ('rule', 'K', ['k'], ('rep', ('str', 'a'), None, ('name', 'k')))]))
    out.append(('bound-param-passthrough', [
        ('rule', 'start', None, ('call', 'Outer', [('str', 'a'), ('py', "'val'")])),
        ('rule', 'Outer', ['p', 'v'], ('seq', [('call', 'Inner', [('ref', 'p'), ('ref', 'v')]), ('str', '!')])),
        ('rule', 'Inner', ['p2', 'v2'], ('seq', [('plus', ('ref', 'p2')), ('py', "('in', v2)")]))]))
    # compound argument mentioning a parser parameter of the enclosing template
    out.append(('compound-mentions-param', [
        ('rule', 'start', None, ('call', 'Outer', [T])),
        ('rule', 'Outer', ['q'], ('call', 'Inner', [('seq', [('ref', 'q'), ('str', '!')])])),
        ('rule', 'Inner', ['p'], ('plus', ('ref', 'p')))]))
    out.append(('compound-mentions-two', [
        ('rule', 'start', None, ('call', 'Outer', [('str', 'a'), ('str', 'b')])),
        ('rule', 'Outer', ['q', 'r'], ('call', 'Inner', [('alt', [('seq', [('ref', 'q'), ('ref', 'r')]), ('ref', 'r')])])),
        ('rule', 'Inner', ['p'], ('plus', ('ref', 'p')))]))
    out.append(('compound-mentions-three', [
        ('rule', 'start', None, ('call', 'Outer', [('str', 'a'), ('str', 'b'), T])),
        ('rule', 'Outer', ['q', 'r', 's'], ('seq', [('call', 'Inner', [('seq', [('ref', 'q'), ('opt', ('ref', 'r')), ('ref', 's')])]),
                                                   ('str', '!')])),
        ('rule', 'Inner', ['p'], ('seq', [('ref', 'p'), ('opt', ('ref', 'p'))]))]))
    # template class with parser + value parameter instantiated twice
    out.append(('class-template-twice', [
        ('rule', 'start', None, ('seq', [('call', 'CP', [('str', 'a'), ('py', '1')]), ('call', 'CP', [T, ('py', "'two'")])])),
        template_stmt('CP')]))
    # a let passed directly as an argument, its body being directly the use of the name
    out.append(('arg-let-count', [
        ('rule', 'start', None, ('call', 'W', [('let', 'n', D, ('rep', ('str', 'a'), ('name', 'n'), ('name', 'n')))])),
        ('rule', 'W', ['p'], ('seq', [('ref', 'p'), ('opt', ('str', '!'))]))]))
    out.append(('arg-let-read', [
        ('rule', 'start', None, ('seq', [('call', 'W', [('let', 'v', T, ('py', "('seen', v)"))]), ('call', 'W', [('let', 'v', T, ('where', T, ('py', 'lambda w: w == v')))])])),
        ('rule', 'W', ['p'], ('seq', [('ref', 'p'), ('opt', ('str', '!'))]))]))
    # an argument handed on to a second template -- by position or by keyword -- and used there as a
    # value, as a parser, or as both (a string literal is both)
    for atag, arg in (('str', ('str', 'a')), ('str2', ('str', 'ab')), ('py', ('py', "'a'")), ('tok', ('ref', 'Tok'))):
        for ftag in ('pos', 'kw'):
            for utag in ('value', 'parser', 'both'):
                if (atag == 'py' and utag != 'value') or (atag == 'tok' and utag != 'parser'):
                    continue
                fwd = ('ref', 'tag') if ftag == 'pos' else ('kw', 'word', ('ref', 'tag'))
                if utag == 'value':
                    inner = ('where', ('re', '[ab]+', False), ('py', 'lambda x: x == word'))
                elif utag == 'parser':
                    inner = ('seq', [('ref', 'word'), ('opt', ('ref', 'word'))])
                else:
                    inner = ('seq', [('ref', 'word'), ('py', "('val', word)")])
                out.append(('forward-%s-%s-%s' % (atag, ftag, utag), [
                    ('rule', 'start', None, ('alt', [('call', 'Tagged', [arg, ('str', '!')]), ('call', 'Tagged', [arg, ('ref', 'Tok')])])),
                    ('rule', 'Tagged', ['tag', 'body'], ('seq', [('call', 'Keyword', [fwd]), ('ref', 'body')])),
                    ('rule', 'Keyword', ['word'], inner)]))
    # templates handed to templates: a parameter called with arguments
    ANGLE = ('rule', 'Angle', ['x'], ('right', ('str', '<'), ('left', ('ref', 'x'), ('str', '>'))))
    CURLY = ('rule', 'Curly', ['x'], ('seq', [('str', '{'), ('ref', 'x'), ('str', '}')]))
    out.append(('higher-order', [
        ('rule', 'start', None, ('seq', [('call', 'Both', [('ref', 'Angle'), ('str', 'a')]), ('call', 'Both', [('ref', 'Curly'), ('ref', 'Tok')]),
                                         ('opt', ('call', 'Twice', [('ref', 'Angle'), ('ref', 'Tok')]))])),
        ('rule', 'Both', ['w', 'i'], ('call', 'w', [('ref', 'i')])),
        ('rule', 'Twice', ['w', 'i'], ('call', 'w', [('call', 'w', [('ref', 'i')])])), ANGLE, CURLY]))
    out.append(('higher-order-kw', [
        ('rule', 'start', None, ('seq', [('call', 'Both', [('kw', 'i', ('ref', 'Tok')), ('kw', 'w', ('ref', 'Angle'))]),
                                         ('star', ('call', 'Both', [('ref', 'Curly'), ('alt', [('str', 'ab'), ('ref', 'Tok')])]))])),
        ('rule', 'Both', ['w', 'i'], ('call', 'w', [('kw', 'x', ('ref', 'i'))])), ANGLE, CURLY]))
    out.append(('higher-order-value', [
        ('rule', 'start', None, ('let', 'n', D, ('seq', [('call', 'Ho', [('ref', 'Rep'), ('ref', 'n')]), ('call', 'Ho', [('ref', 'Rep'), ('py', 'n + 1')])]))),
        ('rule', 'Ho', ['f', 'v'], ('seq', [('call', 'f', [('ref', 'v')]), ('opt', ('str', '!'))])),
        ('rule', 'Rep', ['k'], ('rep', ('str', 'a'), ('name', 'k'), ('name', 'k')))]))
    out.append(('higher-order-class', [
        ('rule', 'start', None, ('seq', [('call', 'Mk', [('ref', 'Box'), ('ref', 'Tok')]), ('call', 'Mk', [('ref', 'Box'), ('str', '!')])])),
        ('rule', 'Mk', ['c', 'p'], ('call', 'c', [('ref', 'p')])),
        ('class', 'Box', ['q'], [('field', 'v', ('ref', 'q')), ('field', 'more', ('opt', ('ref', 'q')))])]))
    # caller and callee spell a binding alike (parameter / let / field of the same name): each keeps its
    # own value, also after the call returns
    TOK = ('ref', 'Tok')
    out.append(('clash-param-param', [
        ('rule', 'start', None, ('call', 'Pair', [D])),
        ('rule', 'Pair', ['x'], ('seq', [('call', 'Angle', [TOK]), ('ref', 'x'), ('opt', ('ref', 'x'))])),
        ('rule', 'Angle', ['x'], ('right', ('str', '<'), ('left', ('ref', 'x'), ('str', '>'))))]))
    out.append(('clash-let-param', [
        ('rule', 'start', None, ('let', 'x', TOK, ('seq', [('call', 'Bang', [D]), R(1, 'x'), ('opt', ('call', 'Bang', [TOK])), R(2, 'x')]))),
        ('rule', 'Bang', ['x'], ('left', ('ref', 'x'), ('str', '!')))]))
    out.append(('clash-let-kwparam', [
        ('rule', 'start', None, ('let', 'x', TOK, ('seq', [('call', 'Bang', [('kw', 'x', D)]), R(1, 'x')]))),
        ('rule', 'Bang', ['x'], ('left', ('ref', 'x'), ('str', '!')))]))
    out.append(('clash-let-valueparam', [
        ('rule', 'start', None, ('let', 'x', TOK, ('seq', [('call', 'Val', [('py', "'k'")]), R(1, 'x'), ('call', 'Val', [('ref', 'x')]), R(2, 'x')]))),
        ('rule', 'Val', ['x'], ('seq', [TOK, ('py', "('val', x)")]))]))
    out.append(('clash-let-let', [
        ('rule', 'start', None, ('let', 'v', TOK, ('seq', [('call', 'Inner', [D]), R(1, 'v'), ('rep', ('str', '!'), None, ('py', 'len(v)'))]))),
        ('rule', 'Inner', ['p'], ('let', 'v', ('ref', 'p'), ('seq', [R(2, 'v'), TOK])))]))
    out.append(('clash-field-param', [
        ('class', 'start', None, [('field', 'x', TOK), ('field', 'y', ('call', 'Bang', [D])), ('field', 'z', R(1, 'x')),
                                  ('field', 'w', ('opt', ('ref', 'Sub'))), ('field', 'u', R(2, 'x', 'y'))]),
        ('class', 'Sub', None, [('field', 'x', ('call', 'Bang', [('str', 'b')])), ('field', 'y', R(3, 'x'))]),
        ('rule', 'Bang', ['x'], ('left', ('ref', 'x'), ('str', '!')))]))
    out.append(('clash-classtemplate', [
        ('rule', 'start', None, ('let', 'x', TOK, ('seq', [('call', 'Box', [D]), R(1, 'x')]))),
        ('class', 'Box', ['x'], [('field', 'v', ('ref', 'x')), ('pass', TOK), ('field', 'x2', ('opt', ('ref', 'x')))])]))
    out.append(('clash-param-let-two-levels', [
        ('rule', 'start', None, ('call', 'Outer', [TOK, ('py', "'o'")])),
        ('rule', 'Outer', ['p', 'v'], ('seq', [('call', 'Inner', [D, ('py', "'i'")]), ('ref', 'p'), R(1, 'v'),
                                               ('call', 'Inner', [('ref', 'p'), ('ref', 'v')]), R(2, 'v')])),
        ('rule', 'Inner', ['p', 'v'], ('seq', [TOK, ('ref', 'p'), R(3, 'v')]))]))
    # a compound argument reading several bound names, first used in every order (the helper built for
    # the argument receives the names it captures)
    import itertools
    for perm in itertools.permutations(['aa', 'mm', 'zz']):
        reads = [R(10 + i, n) for i, n in enumerate(perm)]
        out.append(('capture-order-let-' + ''.join(n[0] for n in perm), [
            ('rule', 'start', None, ('let', 'zz', TOK, ('let', 'aa', D, ('let', 'mm', ('str', '-'),
                                     ('call', 'W', [('seq', [TOK] + reads + [R(20, *perm)])]))))),
            ('rule', 'W', ['p'], ('seq', [('ref', 'p'), ('opt', ('str', '!'))]))]))
        out.append(('capture-order-param-' + ''.join(n[0] for n in perm), [
            ('rule', 'start', None, ('call', 'Outer', [('py', "'z'"), ('py', '1'), ('py', "'m'")])),
            ('rule', 'Outer', ['zz', 'aa', 'mm'], ('call', 'W', [('seq', [TOK] + reads)])),
            ('rule', 'W', ['p'], ('seq', [('ref', 'p'), ('opt', ('str', '!'))]))]))
        out.append(('capture-order-field-' + ''.join(n[0] for n in perm), [
            ('class', 'start', None, [('field', 'zz', TOK), ('field', 'aa', D), ('field', 'mm', ('opt', ('str', '-'))),
                                      ('field', 'got', ('call', 'W', [('seq', [TOK] + reads)]))]),
            ('rule', 'W', ['p'], ('seq', [('ref', 'p'), ('opt', ('str', '!'))]))]))
    # the same with a count and a where predicate as the uses
    out.append(('capture-order-count-where', [
        ('rule', 'start', None, ('let', 'size', D, ('let', 'mark', TOK,
                                 ('call', 'W', [('apply', ('rep', ('where', TOK, ('py', 'lambda t: t != mark')), ('name', 'size'), ('name', 'size')),
                                                           ('py', 'lambda xs: (size, mark, xs)'))])))),
        ('rule', 'W', ['p'], ('right', ('str', '['), ('left', ('ref', 'p'), ('str', ']'))))]))
    # a parameter spelled like an existing rule or class denotes the argument, not that rule
    out.append(('param-shadows-rule', [
        ('rule', 'start', None, ('seq', [('call', 'P', [('ref', 'Num')]), ('str', ','), ('call', 'P', [('str', 'x')]), ('opt', ('ref', 'Word'))])),
        ('rule', 'P', ['Word'], ('seq', [('ref', 'Word'), ('opt', ('str', '!'))])),
        ('rule', 'Word', None, ('re', '[ab]+', False)),
        ('rule', 'Num', None, ('re', '[0-9]+', False))]))
    out.append(('param-shadows-class', [
        ('rule', 'start', None, ('seq', [('call', 'Q', [('ref', 'Num'), ('py', "'v'")]), ('opt', ('ref', 'K'))])),
        ('rule', 'Q', ['K', 'Num2'], ('seq', [('plus', ('ref', 'K')), ('py', 'Num2')])),
        ('class', 'K', None, [('field', 'w', ('re', '[ab]+', False))]),
        ('rule', 'Num', None, ('re', '[0-9]', False))]))
    out.append(('let-shadows-rule', [
        ('rule', 'start', None, ('let', 'Word', ('re', '[0-9]', False), ('seq', [('ref', 'W2'), ('py', 'Word'), ('call', 'V', [('ref', 'Word')])]))),
        ('rule', 'V', ['v'], ('seq', [T, ('py', "('v', v)")])),
        ('rule', 'W2', None, ('ref', 'Word')),
        ('rule', 'Word', None, ('re', '[ab]+', False))]))
    # bytes grammars: byte / bytes-string / bytes-regex arguments, value and parser use
    BT = ('bre', '[ab]', False)
    out.append(('byte-arg', [
        ('rule', 'start', None, ('seq', [('call', 'WB', [('byte', 0x61)]), ('opt', ('call', 'WB', [('byte', 0x62)]))])),
        ('rule', 'WB', ['p'], ('seq', [('ref', 'p'), ('py', "('val', p)"), ('opt', ('bstr', b'!'))]))]))
    out.append(('bytes-args', [
        ('rule', 'start', None, ('seq', [('call', 'WB', [('bstr', b'ab')]), ('call', 'WP', [BT]), ('call', 'WP', [('alt', [('byte', 0x61), ('bstr', b'bb')])])])),
        ('rule', 'WB', ['p'], ('seq', [('ref', 'p'), ('py', "('val', p)")])),
        ('rule', 'WP', ['p'], ('seq', [('ref', 'p'), ('opt', ('ref', 'p'))]))]))
    # the same text as a case-sensitive and as a case-insensitive literal argument, tried at one position
    out.append(('same-pos-case-variants-alt', [
        ('rule', 'start', None, ('alt', [('call', 'W', [('str', 'ab')]), ('call', 'W', [('istr', 'ab')])])),
        ('rule', 'W', ['p'], ('seq', [('ref', 'p'), ('opt', ('str', '!'))]))]))
    out.append(('same-pos-case-variants-alt-rev', [
        ('rule', 'start', None, ('alt', [('seq', [('call', 'W', [('istr', 'ab')]), ('str', '?')]), ('call', 'W', [('str', 'ab')])])),
        ('rule', 'W', ['p'], ('seq', [('ref', 'p'), ('opt', ('str', '!'))]))]))
    out.append(('same-pos-case-variants-expect', [
        ('rule', 'start', None, ('alt', [('seq', [('expect', ('call', 'W', [('istr', 'ab')])), ('call', 'W', [('str', 'ab')])]), ('re', '[abAB!]*', False)])),
        ('rule', 'W', ['p'], ('seq', [('ref', 'p'), ('opt', ('str', '!'))]))]))
    out.append(('same-pos-case-variants-two-templates', [
        ('rule', 'start', None, ('alt', [('seq', [('call', 'W', [('str', 'a')]), ('str', '?')]), ('call', 'V2', [('kw', 'q', ('istr', 'a'))])])),
        ('rule', 'W', ['p'], ('seq', [('ref', 'p'), ('opt', ('str', '!'))])),
        ('rule', 'V2', ['q'], ('plus', ('ref', 'q')))]))
    # a bytes string literal as argument is a bytes VALUE inside the template (and a parser)
    out.append(('bytes-literal-value', [
        ('rule', 'start', None, ('seq', [('call', 'WV', [('bstr', b'ab')]), ('opt', ('call', 'WV', [('kw', 'p', ('bstr', b'a'))]))])),
        ('rule', 'WV', ['p'], ('seq', [('ref', 'p'), ('py', "('val', p, p + b'!', len(p))")]))]))
    out.append(('bytes-literal-value-forwarded', [
        ('rule', 'start', None, ('call', 'Fw', [('bstr', b'ab')])),
        ('rule', 'Fw', ['q'], ('call', 'WV', [('ref', 'q')])),
        ('rule', 'WV', ['p'], ('seq', [('opt', ('ref', 'p')), ('py', "('val', p, p[:1])")]))]))
    # known-finding mechanisms (kept minimal)
    out.append(('capture-python', [
        ('rule', 'start', None, ('let', 'q', T, ('call', 'W', [('where', T, ('py', 'lambda v: v == q'))]))),
        ('rule', 'W', ['p'], ('seq', [('ref', 'p'), ('opt', ('str', '!'))]))]))
    out.append(('capture-count', [
        ('rule', 'start', None, ('let', 'n', D, ('call', 'W', [('rep', ('str', 'a'), ('name', 'n'), ('name', 'n'))]))),
        ('rule', 'W', ['p'], ('seq', [('ref', 'p'), ('opt', ('str', '!'))]))]))
    out.append(('conflation', [
        ('rule', 'start', None, ('seq', [('expect', ('call', 'V', [('py', '1')])), ('call', 'V', [('py', '1.0')])])),
        ('rule', 'V', ['v'], ('seq', [T, ('py', 'v')]))]))
    return out


def run_shard(rec):
    quick = rec.tier == 'quick'
    rec.deadline = time.time() + (300 if quick else 900)
    idx = 0
    names = sorted(BODIES) + sorted(CLASS_BODIES)
    for tname in names:
        params = (BODIES.get(tname) or CLASS_BODIES[tname])[0]
        for atag, args in calls_for(tname):
            for ctag, cargs in conventions(params, args):
                for named in (None, 'named'):
                    idx += 1
                    if not rec.mine(idx):
                        continue
                    if quick and (idx // 16) % 2 == (rec.seed % 2) and ctag != 'positional':
                        continue
                    call = ('call', tname, cargs)
                    for wtag, body in (('plain', ('seq', [call, ('re', '[ab!]*', False)])),
                                       ('alt', ('alt', [('seq', [call, ('str', '?')]), ('seq', [('star', T), ('opt', call)])]))):
                        gname = None if named is None else diff.unique_name('vt_c06')
                        G = build_grammar(body, [tname], gname)
                        run_one(rec, G, (tname, atag, ctag, wtag, 'named' if named else 'unnamed'),
                                rounds=60 if quick else 300, expand=(named is None))
    for tag, stmts in curated_special():
        for named in (None, 'named'):
            idx += 1
            if not rec.mine(idx):
                continue
            gname = None if named is None else diff.unique_name('vt_c06')
            extra = [] if tag.startswith('byte') else [s for s in EXTRA_RULES if s[1] not in {x[1] for x in stmts}]
            G = dict(name=gname, extends=None, stmts=list(stmts) + extra)
            run_one(rec, G, ('special', tag, 'named' if named else 'unnamed'), rounds=300 if quick else 1500,
                    expand=(named is None), trusted=True)
    # random programs with templates
    from .. import proggen
    n = 25 if quick else 600
    for i in range(n):
        if rec.out_of_time():
            rec.count('cut_by_time')
            break
        pg = proggen.ProgGen(rec.rng, nested_shadow=False, use_classes=rec.rng.random() < 0.5)
        G = pg.grammar()
        if proggen.has_nested_shadow(G) or not pg.templates:
            rec.drop()
            continue
        if rec.rng.random() < 0.3:
            G['name'] = diff.unique_name('vt_c06r')
        run_one(rec, G, ('random',), rounds=150 if quick else 600, expand=G['name'] is None)


def replay(rec, rep):
    import ast
    case = rep['case']
    G = ast.literal_eval(case['grammars_repr'])[0]
    text = ast.literal_eval(case['text_repr']) if case.get('text_repr') else None
    if case.get('kind') == 'grammar' or text is None:
        diff.build(rec, [G], sigprefix=sig_for(G))
        return
    run_one(rec, G, 'replay', inputs=[text], expand=G.get('name') is None)
