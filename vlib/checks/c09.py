"""C09 -- reported error locations point at a real, consistent input location.

Monitors: (a) contracts (post-conditions with independent recomputation) on the
emitted module's _extract_excerpt / _get_line_and_column /
_map_index_to_line_and_column, attached by rebinding the module globals;
(b) end-to-end checker of every ParseError / PartialParseError (index range,
line/column of the index, message head, one-line excerpt, caret under
text[index]); (c) index <= farthest successful match end of the model."""
import gc
import time

from .. import gast, gen, diff, work, observe, errcheck, contracts

ID = 'C09'


def plan(tier, seed):
    return dict(
        shards=16,
        rule='sweep: error placed at a chosen offset by two tiny grammars (ParseError / PartialParseError) x '
             'line length 1..230 (quick) / 1..450 (thorough) x every column x 7 neighbourhoods (no '
             'neighbour, previous, next, both, empty neighbours, three further lines, CRLF-like) -- all '
             'four excerpt regimes and every threshold; bytes input; plus all error outcomes of random '
             'core grammars over multi-line alphabets, checked against the model bound.  Non-trivial = '
             'distinct (line length, column, neighbourhood, error kind) or (description,input,pos) '
             'producing an error record.',
        assumptions=['the error offset is never on a newline character in the sweep',
                     'model M (farthest successful literal end) bounds the reported index'],
    )


def inconclusive(counters, evaluations, tier):
    out = []
    if counters.get('churn_calls', 0) and not counters.get('churn_texts_at_the_address_of_the_previous_one', 0):
        out.append('churn: no text ever took over the address of the previous one')
    for k in ('contract:_extract_excerpt', 'contract:_map_index_to_line_and_column', 'error_records_checked'):
        if counters.get(k, 0) == 0:
            out.append('%s never evaluated' % k)
    return out


# -- contracts -----------------------------------------------------------------

def post_extract_excerpt(text, pos, col, result):
    if isinstance(text, (bytes, bytearray)):
        want = repr(text[max(0, pos - 1):pos + 2])
        return True if result == want else 'bytes excerpt %r != %r' % (result, want)
    if not isinstance(result, str):
        return 'not a str'
    if pos >= len(text) or text[pos] == '\n':
        return True
    lines = result.split('\n')
    if len(lines) != 2:
        return 'excerpt spills over a line break: %d lines' % len(lines)
    ex, caret = lines
    if not (caret.endswith('^') and caret[:-1].strip(' ') == ''):
        return 'second line is not a caret line: %r' % caret[:40]
    c = len(caret) - 1
    if c >= len(ex):
        return 'caret beyond the excerpt'
    if ex[c] != text[pos]:
        return 'caret under %r, error character is %r' % (ex[c], text[pos])
    return True


def post_map(text, result):
    try:
        lines, cols = result
    except Exception:
        return 'not a pair'
    n = len(text)
    if len(lines) < n or len(cols) < n:
        return 'maps shorter than the text'
    if isinstance(text, (bytes, bytearray)):
        for i in range(n):
            if lines[i] != 1 or cols[i] != i + 1:
                return 'bytes: index %d -> (%r,%r)' % (i, lines[i], cols[i])
        return True
    line, start = 1, 0
    for i, ch in enumerate(text):
        if ch == '\n':
            line += 1
            start = i + 1
            continue
        if lines[i] != line or cols[i] != i - start + 1:
            return 'index %d -> (%r,%r), expected (%d,%d)' % (i, lines[i], cols[i], line, i - start + 1)
    return True


def post_get(text, pos, result):
    if pos >= len(text):
        return True
    if not isinstance(text, (bytes, bytearray)) and text[pos] == '\n':
        return True
    want = errcheck.line_col(text, pos)
    return True if tuple(result) == want else '(%r) != %r' % (result, want)


def attach_contracts(g, counter):
    n = 0
    n += contracts.attach(g, '_extract_excerpt', post_extract_excerpt, counter)
    n += contracts.attach(g, '_map_index_to_line_and_column', post_map, counter)
    n += contracts.attach(g, '_get_line_and_column', post_get, counter)
    return n


# -- sweep -----------------------------------------------------------------------

def neighbourhoods(line):
    yield 'alone', '', ''
    yield 'prev', 'abc\n', ''
    yield 'next', '', '\nxyz'
    yield 'both', 'abcdefgh\n', '\nxyz\n'
    yield 'empty-neighbours', '\n', '\n'
    yield 'three-more', 'a\nbb\n', '\ncc\ndd\nee'
    yield 'long-neighbours', 'q' * 130 + '\n', '\n' + 'r' * 130
    # characters that str.splitlines() treats as line boundaries but that are NOT line breaks for
    # sourcer (only '\n' is): they must not start a new line in positions or excerpts
    yield 'cr-before', 'ab\rcd\n', ''
    yield 'exotic-separators-before', 'a\x0bb\x0cc\x1cd\x1de\x1ef\x85g\u2028h\u2029i\n', '\n\x0c\u2028'
    yield 'crlf', 'ab\r\ncd\r\n', '\r\nxyz'
    yield 'same-line-exotic', 'zz\n' + 'k\x0ck\rk\u2028k\x85', '\x0c\rtail\nnext'


def sweep(rec, lengths, shard_filter):
    letters = 'abcdefghijklmnopqrstuvwxyz'
    Gs = {
        'parse-error': gast.simple_grammar({'start': ('left', ('re', '[^#]*', False), ('str', '!'))}),
        'partial': gast.simple_grammar({'start': ('re', '[^#]*', False)}),
    }
    built = {}
    counter = contracts.Counter()
    for k, G in Gs.items():
        b = diff.build(rec, G)
        if b is None:
            return
        if attach_contracts(b.g, counter) != 3:
            rec.note('contracts could not be attached to all three helpers')
        built[k] = b
    idx = 0
    for L in lengths:
        base = ''.join(letters[i % 26] for i in range(L))
        for col in range(1, L + 1):
            idx += 1
            if not shard_filter(idx):
                continue
            line = base[:col - 1] + '#' + base[col:]
            for nname, before, after in neighbourhoods(line):
                text = before + line + after
                index = len(before) + col - 1
                for kind, b in built.items():
                    case = None
                    try:
                        o = observe.observe(b.g, text, guard=False)
                    except contracts.ContractBroken as e:
                        rec.case()
                        rec.violation('contract:%s' % str(e).split(':')[0], 'icontract post-condition',
                                      diff.case_dict(b, text, None, 0, True, sweep=(L, col, nname, kind)),
                                      'post-condition holds', str(e))
                        continue
                    rec.case()
                    rec.nontrivial((L, col, nname, kind))
                    want_cls = 'error' if kind == 'parse-error' else 'partial'
                    if o.outcome[0] == 'other' and o.outcome[1] == 'ContractBroken':
                        rec.violation('contract:%s' % o.outcome[2].split(':')[0], 'icontract post-condition',
                                      diff.case_dict(b, text, None, 0, True, sweep=(L, col, nname, kind)),
                                      'post-condition holds', o.outcome[2])
                        continue
                    if o.outcome[0] != want_cls:
                        rec.violation('sweep-outcome:%s' % observe.outcome_class(o.outcome), 'sweep outcome',
                                      diff.case_dict(b, text, None, 0, True, sweep=(L, col, nname, kind)),
                                      want_cls, o.outcome)
                        continue
                    probs = errcheck.check_error(b.g, text, 0, o.exc, None)
                    rec.count('error_records_checked')
                    got = (o.exc.position if kind == 'parse-error' else o.exc.last_position).index
                    if got != index:
                        probs.append(('sweep-index', index, got))
                    for p in probs:
                        rec.violation('errmsg:%s' % p[0], 'error location/message checker',
                                      diff.case_dict(b, text, None, 0, True, sweep=(L, col, nname, kind)), p[1], p[2])
    for name, n in counter.n.items():
        rec.count('contract:' + name, n)
    rec.sample(dict(sweep=True, lengths=[lengths[0], lengths[-1]], grammars=[b.descs[-1] for b in built.values()]), limit=1)
    for b in built.values():
        b.cleanup()


def bytes_sweep(rec):
    Gs = {
        'parse-error': gast.simple_grammar({'start': ('left', ('bre', '[a-z\\n]*', False), ('bstr', b'!'))}),
        'partial': gast.simple_grammar({'start': ('bre', '[a-z\\n]*', False)}),
    }
    counter = contracts.Counter()
    for kind, G in Gs.items():
        b = diff.build(rec, G)
        if b is None:
            continue
        attach_contracts(b.g, counter)
        for L in list(range(1, 30)) + [95, 96, 97, 130]:
            for col in range(1, L + 1):
                for before, after in ((b'', b''), (b'ab\n', b'\ncd')):
                    line = bytes((97 + i % 26) for i in range(L))
                    text = before + line[:col - 1] + b'#' + line[col:] + after
                    o = observe.observe(b.g, text, guard=False)
                    rec.case()
                    rec.nontrivial(('bytes', L, col, kind, len(before)))
                    if o.outcome[0] == 'other':
                        rec.violation('bytes-sweep:%s' % o.outcome[1], 'bytes sweep',
                                      diff.case_dict(b, text, None, 0, True, bytes_sweep=True), 'error record', o.outcome)
                        continue
                    probs = errcheck.check_error(b.g, text, 0, o.exc, None)
                    rec.count('error_records_checked')
                    rec.count('bytes_error_records_checked')
                    for p in probs:
                        rec.violation('errmsg:%s' % p[0], 'error location/message checker (bytes)',
                                      diff.case_dict(b, text, None, 0, True, bytes_sweep=True), p[1], p[2])
        b.cleanup()
    for name, n in counter.n.items():
        rec.count('contract:' + name, n)


def general(rec, n, quick):
    for i in range(n):
        if rec.out_of_time():
            rec.count('cut_by_time')
            break
        multi = i % 2 == 0
        rg = gen.RandomGrammar(rec.rng, maxdepth=rec.rng.randint(2, 4), alphabet='a\n' if multi else 'ab')
        G = rg.grammar()
        if not gen.well_formed(G):
            rec.drop()
            continue
        ins = work.inputs_for('a\nb' if multi else 'ab#', 4 if quick else 5)
        if multi:
            # the same inputs with line-boundary look-alikes in front (never consumed by the grammar's
            # tokens: entry positions 1 and 2 skip them)
            ins = ins + [c + t for t in ins[:40] for c in ('\r', '\x0c', '\u2028')]
        entries = work.rule_entries(G)[:3]

        def on_result(b, text, entry, pos, fp, exp, o, model):
            if o.exc is not None and o.outcome[0] in ('error', 'partial'):
                rec.nontrivial((b.descs[-1], text, entry, pos))

        work.run_grammar(rec, G, ins, ('general', 'multi' if multi else 'single'), entries=entries,
                         monitors=('errmsg',), positions=(0, 1, 2), on_result=on_result, nontrivial=lambda *a: False)


def churn(rec, n):
    """Error records of texts that follow each other closely: equal length, line breaks at other places,
    every text a FRESH object built right before the call and dropped right after it (so that its memory
    -- and its id -- is taken over by the next one).  Each record is checked against its own text."""
    Gs = {
        'parse-error': gast.simple_grammar({'start': ('left', ('re', '[^#]*', False), ('str', '!'))}),
        'partial': gast.simple_grammar({'start': ('re', '[^#]*', False)}),
    }
    rng = rec.rng
    for kind, G in Gs.items():
        b = diff.build(rec, G)
        if b is None:
            continue
        for L in (24, 60, 133):
            plans = []
            for i in range(n):
                cells = ['a'] * L
                for k in rng.sample(range(L), rng.randint(1, 5)):
                    cells[k] = '\n'
                at = rng.randrange(L)
                cells[at] = '#'
                plans.append((cells, at))
            last_id = None
            for i, (cells, at) in enumerate(plans):
                text = ''.join(cells)          # a new object every time
                if id(text) == last_id:
                    rec.count('churn_texts_at_the_address_of_the_previous_one')
                last_id = id(text)
                o = observe.observe(b.g, text, guard=False)
                rec.case()
                rec.count('churn_calls')
                if o.exc is None or o.outcome[0] not in ('error', 'partial'):
                    rec.violation('churn:outcome', 'error expected at the #', dict(kind='churn', grammar=kind, text_repr=repr(text)), 'error at %d' % at, o.outcome[:2])
                else:
                    rec.nontrivial(('churn', kind, L, i))
                    for pr in errcheck.check_error(b.g, text, 0, o.exc, None):
                        rec.violation('churn:errmsg:%s' % pr[0], 'error location/message checker on texts that take over each other\'s memory',
                                      dict(kind='churn', grammar=kind, text_repr=repr(text), descs=b.descs), pr[1], pr[2])
                # (an exception and its traceback frames form a cycle that keeps the text alive until the
                # collector runs: collect, THEN drop the text, so that the next one can take its place)
                del o
                gc.collect()
                del text
        b.cleanup()


def with_ignorable(rec, G, kind):
    """Error records of grammars that declare ignore patterns: failures in front of, inside and behind
    ignorable text, blank-only inputs and tails, entry points other than start (which do not skip
    leading ignorable text), ignore patterns that cover only part of the white space, bytes."""
    if kind == 'ws':
        ign, blanks, alpha, bm = ('ignore', ('re', '\\s+', False)), [' ', '\n', '\t', ' \n ', '\r', '\x0c'], 'ab', False
    elif kind == 'partial':
        ign, blanks, alpha, bm = ('ignore', ('re', '[ \t]+', False)), [' ', '\t', '  '], 'a\n', False
    elif kind == 'named':
        ign, blanks, alpha, bm = ('irule', 'Space', ('str', ' ')), [' ', '  '], 'a\n', False
    else:
        ign, blanks, alpha, bm = ('ignore', ('byte', 0x20)), [' ', '  '], 'a\n\t', True
    G = dict(G, stmts=list(G['stmts']) + [ign])
    base = work.inputs_for(alpha + ('' if bm else '#'), 3, False)
    ins = []
    for t in base:
        ins.append(t)
        b = rec.rng.choice(blanks)
        ins.append(t + b)
        ins.append(b + t)
        if len(t) >= 2:
            ins.append(t[:1] + b + t[1:])
            ins.append(t[:1] + b + t[1:] + rec.rng.choice(blanks))
    ins.extend(blanks)
    ins.extend(x + y for x in blanks for y in blanks)
    ins = list(dict.fromkeys(ins))
    if bm:
        ins = [t.encode('latin-1') for t in ins]
    entries = work.rule_entries(G)[:4]

    def on_result(b, text, entry, pos, fp, exp, o, model):
        if o.exc is not None and o.outcome[0] in ('error', 'partial'):
            rec.nontrivial((b.descs[-1], text, entry, pos))
            rec.count('error_records_with_ignore')

    work.run_grammar(rec, G, ins, ('ignore', kind), entries=entries, monitors=('errmsg',), positions=(0, 1, 2),
                     on_result=on_result, nontrivial=lambda *a: False)


def general_ignore(rec, n):
    for i in range(n):
        if rec.out_of_time():
            rec.count('cut_by_time')
            break
        kind = ('ws', 'partial', 'named', 'bytes')[i % 4]
        rg = gen.RandomGrammar(rec.rng, maxdepth=rec.rng.randint(2, 4), alphabet='ab' if kind == 'ws' else 'a\n',
                               bytes_mode=(kind == 'bytes'))
        G = rg.grammar()
        if not gen.well_formed(G):
            rec.drop()
            continue
        with_ignorable(rec, G, kind)


def run_shard(rec):
    quick = rec.tier == 'quick'
    rec.deadline = time.time() + (300 if quick else 600)
    maxL = 230 if quick else 450
    lengths = list(range(1, maxL + 1))
    sweep(rec, lengths, rec.mine)
    if rec.shard == 0:
        bytes_sweep(rec)
    general(rec, 50 if quick else 800, quick)
    general_ignore(rec, 40 if quick else 600)
    if rec.shard in (3, 9):
        churn(rec, 150 if quick else 2000)


def replay(rec, rep):
    import ast
    case = rep['case']
    if case.get('kind') == 'churn':
        return churn(rec, 150)
    if case.get('sweep'):
        b = diff.rebuild_from_case(rec, case)
        if b is None:
            return
        counter = contracts.Counter()
        attach_contracts(b.g, counter)
        text = ast.literal_eval(case['text_repr'])
        o = observe.observe(b.g, text, guard=False)
        if o.outcome[0] == 'other':
            rec.violation('contract:replay', 'icontract post-condition', case, 'holds', o.outcome)
        elif o.exc is not None:
            for p in errcheck.check_error(b.g, text, 0, o.exc, None):
                rec.violation('errmsg:%s' % p[0], 'error checker', case, p[1], p[2])
        b.cleanup()
        return
    diff.replay_diff(rec, case, monitors=('errmsg',))
