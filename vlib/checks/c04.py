"""C04 -- ignored patterns are skipped exactly at token boundaries.

Monitors: (a) boundary recorder vs reference model with ignore; (b) lengthening
relation (real vs real) on the runs the model says are being skipped;
(c) M-trace rule: the `_ignored` rule body runs only directly inside a literal
block or as the start rule's injected leading reference."""
import time

from .. import gast, gen, diff, work, observe, tracer

ID = 'C04'


def plan(tier, seed):
    return dict(
        shards=16,
        rule='core-expression shapes (depth 1 exhaustive, depth 2 sampled, random multi-rule grammars) x '
             '6 ignore configurations (anonymous / named / 2-3 declarations mixing literal, regex, byte; '
             'declared before or after the rules) x start rule kinds (plain start/Start, class with first '
             'member plain / let / pass); inputs = token strings with ignorable text inserted at the '
             'start, between tokens, before failing tokens and at the end (all placements for short '
             'strings).  Non-trivial = distinct (description,input) with >= 1 skipped run in the model run.',
        assumptions=['reference model E1 with ignore (skip after every successful literal and once before '
                     'the start rule\'s first expression)',
                     'lengthening relation only on grammars built with token alphabet disjoint from the '
                     'ignorable alphabet, no Backtrack, no look-around regex'],
    )


def inconclusive(counters, evaluations, tier):
    out = []
    if counters.get('lengthened_runs', 0) == 0:
        out.append('lengthening relation evaluated nothing')
    if counters.get('ignored_rule_runs_traced', 0) == 0:
        out.append('trace monitor saw no _ignored rule execution')
    return out


def ignore_configs(bytes_mode):
    """(name, [statements], ignorable alphabet)"""
    if bytes_mode:
        return [
            ('byte', [('ignore', ('byte', 0x20))], ' '),
            ('bre-1char', [('ignore', ('bre', '[ _]', False))], ' _'),
            ('byte+re', [('ignore', ('byte', 0x20)), ('irule', 'Under', ('bre', '_+', False))], ' _'),
        ]
    return [
        ('anon-re', [('ignore', ('re', ' +', False))], ' '),
        ('named-re', [('irule', 'Space', ('re', ' +', False))], ' '),
        ('anon-str', [('ignore', ('str', ' '))], ' '),
        # one match covers one character only: a run is several matches
        ('anon-re-1char', [('ignore', ('re', '[ _]', False))], ' _'),
        ('named-re-1char', [('irule', 'Blank', ('re', '[ _]', False))], ' _'),
        ('anon-re-alt', [('ignore', ('re', ' |_+|~', False))], ' _~'),
        ('two', [('ignore', ('str', ' ')), ('ignore', ('re', '_+', False))], ' _'),
        ('three', [('ignore', ('str', ' ')), ('irule', 'Under', ('str', '_')), ('ignore', ('re', '~+', False))], ' _~'),
        ('alt', [('ignore', ('alt', [('str', ' '), ('str', '_')]))], ' _'),
        # ignore patterns made of several literals: the inner literals skip ignorable text too
        ('anon-seq', [('ignore', ('str', ' ')), ('ignore', ('seq', [('str', '<'), ('re', '[xy]+', False), ('str', '>')]))],
         [' ', '<x>', '< y >', '<xy >', ' < x> ']),
        ('named-seq', [('ignore', ('str', ' ')), ('irule', 'Comment', ('right', ('str', '<'), ('left', ('re', '[xy]+', False), ('str', '>'))))],
         [' ', '<x>', '< y >', '<xy >', ' < x> ']),
        ('anon-seq-first', [('ignore', ('seq', [('str', '<'), ('opt', ('str', 'x')), ('str', '>')])), ('irule', 'Space', ('re', ' +', False))],
         [' ', '<>', '< x >', '<x >', '  <  >']),
    ]


def with_ignore(G, ign_stmts, after, start_kind):
    stmts = list(G['stmts'])
    # start rule kinds
    out = []
    for s in stmts:
        if s[0] == 'rule' and s[1] == 'start':
            if start_kind == 'Start':
                out.append(('rule', 'Start', None, s[3]))
            elif start_kind == 'class':
                out.append(('class', 'start', None, [('field', 'v', s[3])]))
            elif start_kind == 'class-let':
                out.append(('class', 'start', None, [('let', 'v', s[3]), ('field', 'w', ('py', 'v'))]))
            elif start_kind == 'class-pass':
                out.append(('class', 'start', None, [('pass', ('opt', ('str', 'a'))), ('field', 'v', s[3])]))
            elif start_kind == 'first':
                # no rule called start: the grammar starts with its first rule
                out.insert(0, ('rule', 'Main', None, s[3]))
            elif start_kind == 'first-class':
                out.insert(0, ('class', 'Main', None, [('field', 'v', s[3])]))
            else:
                out.append(s)
        else:
            out.append(s)
    if start_kind == 'Start':
        out = [rename_start(s) for s in out]
    elif start_kind in ('first', 'first-class'):
        out = [rename_start(s, 'Main') for s in out]
    stmts = (out + ign_stmts) if after else (ign_stmts + out)
    return dict(name=None, extends=None, stmts=stmts)


def rename_start(s, to='Start'):
    def fix(e):
        if e[0] == 'ref' and e[1] == 'start':
            return ('ref', to)
        return gen.map_children(e, fix)
    if s[0] == 'rule':
        return ('rule', s[1], s[2], fix(s[3]))
    if s[0] == 'class':
        return ('class', s[1], s[2], [(m[0], m[1], fix(m[2])) if m[0] in ('field', 'let') else ((m[0], fix(m[1])) if m[0] == 'pass' else m)
                                      for m in s[3]])
    return s


def spaced_inputs(rng, base_inputs, ign_alpha, bytes_mode, per_input):
    """Insert ignorable text at every gap (all placements for short strings, a
    seeded sample otherwise)."""
    out = []
    seen = set()
    for t in base_inputs:
        s = t.decode() if bytes_mode else t
        gaps = len(s) + 1
        cands = [s]
        if gaps <= 4:
            for mask in range(1, 1 << gaps):
                parts = []
                for i in range(gaps):
                    if mask >> i & 1:
                        parts.append(rng.choice(ign_alpha) * rng.choice([1, 1, 2]) if isinstance(ign_alpha, str)
                                     else rng.choice(ign_alpha))
                    if i < len(s):
                        parts.append(s[i])
                cands.append(''.join(parts))
        else:
            for _ in range(per_input):
                parts = []
                for i in range(gaps):
                    if rng.random() < 0.4:
                        parts.append(''.join(rng.choice(ign_alpha) for _ in range(rng.choice([1, 1, 2, 3] if isinstance(ign_alpha, str) else [1, 1, 2]))))
                    if i < len(s):
                        parts.append(s[i])
                cands.append(''.join(parts))
        for c in cands:
            if c not in seen:
                seen.add(c)
                out.append(c.encode() if bytes_mode else c)
    return out


def shift_norm(v, at, k):
    if isinstance(v, tuple) and v and v[0] == 'obj':
        sp = v[3]
        if sp is not None and not (sp and sp[0] == 'raw'):
            # start offsets are token starts (never inside a run) except for the start rule's
            # own span, which begins before the leading run: only offsets > at move.  End offsets
            # are the last consumed offset (trailing ignorable text included): offsets >= at move.
            sp = (sp[0] + k if sp[0] > at else sp[0], sp[1] + k if sp[1] >= at else sp[1])
        return ('obj', v[1], tuple((f, shift_norm(x, at, k)) for f, x in v[2]), sp)
    if isinstance(v, list):
        return [shift_norm(x, at, k) for x in v]
    if isinstance(v, tuple):
        return tuple(shift_norm(x, at, k) for x in v)
    return v


def lengthening(rec, b, text, o, model, tag, unit=None):
    """Real-vs-real: insert k more ignorable characters inside a run that is being skipped."""
    runs = sorted(set(model.skips))[:3]
    for (q, e) in runs:
        for k in (1, 2, 5):
            # lengthen with the run's own first character, or -- for ignore patterns made of several
            # literals, where repeating one character would destroy the pattern -- with a character
            # that is an ignore pattern by itself
            ins = (text[q:q + 1] if unit is None else (unit.encode() if isinstance(text, bytes) else unit)) * k
            t2 = text[:q] + ins + text[q:]
            o2 = observe.observe(b.g, t2)
            rec.case()
            rec.count('lengthened_runs')
            a, c = o.outcome, o2.outcome
            if a[0] == 'value':
                want = ('value', shift_norm(a[1], q, k))
            elif a[0] == 'partial':
                want = ('partial', shift_norm(a[1], q, k), a[2] + k if a[2] > q else a[2])
            else:
                want = a
            if want != c:
                rec.violation('lengthening:%s->%s' % (observe.outcome_class(a), observe.outcome_class(c)),
                              'ignorable-run lengthening relation',
                              diff.case_dict(b, text, None, 0, True, tag=str(tag), lengthen=(q, e, k)),
                              want, c)


def run_one(rec, G, inputs, tag, trace, relation=True, unit=None):
    b = diff.build(rec, G, include_source=trace)
    if b is None:
        return
    rec.count('descriptions')
    tr = None
    if trace:
        tr = tracer.Traced(b.g)
        if not tr.ok:
            tr = None
    desc = b.descs[-1]
    # every rule is an entry point too: without the start rule's leading skip, an entry on ignorable
    # text shows exactly what the first literal does (e.g. an empty regex match still skips)
    entries = [e for e in work.rule_entries(G) if e is not None and not e.startswith('_')
               and e not in ('Space', 'Under', 'Comment', 'Tilde') and e.lower() != 'start'][:2]
    for text in inputs:
        for entry in entries:
            for pos in (0, 1):
                if pos <= len(text):
                    diff.compare(rec, b, text, entry, pos, True, monitor='E1', monitors=('value',),
                                 extra_case=dict(tag=str(tag)))
        r = diff.compare(rec, b, text, None, monitor='E1', monitors=('value',), extra_case=dict(tag=str(tag)))
        if r is None:
            continue
        exp, o, model = r
        if model.skips:
            rec.nontrivial((desc, text))
            rec.count('skip_events', len(model.skips))
            if relation and exp == o.outcome and rec.rng.random() < 0.25:
                lengthening(rec, b, text, o, model, tag, unit)
        if tr is not None:
            viol = tr.run(text, None, o.outcome)
            rec.count('trace_events', tr.last_events)
            rec.count('ignored_rule_runs_traced', tr.ck.ignored_runs)
            if viol == 'mismatch':
                rec.count('trace_discarded')
            elif viol:
                for v in viol[:3]:
                    rec.violation('trace:%s' % v[0], 'M-trace (incl. skip-only-after-literal rule)',
                                  diff.case_dict(b, text, None, 0, True, tag=str(tag), trace=True),
                                  'trace rule %s' % v[0], v)
    rec.sample(dict(description=desc, inputs=len(inputs), tag=str(tag)), limit=2)
    b.cleanup()


def run_shard(rec):
    quick = rec.tier == 'quick'
    rec.deadline = time.time() + (300 if quick else 900)
    rng = rec.rng
    idx = 0
    start_kinds = ['start', 'Start', 'class', 'class-let', 'class-pass', 'first', 'first-class']
    for bytes_mode in (False, True):
        leaves = gen.bytes_leaves() if bytes_mode else gen.text_leaves()
        lrules = gen.BYTES_LEAF_RULES if bytes_mode else gen.TEXT_LEAF_RULES
        cfgs = ignore_configs(bytes_mode)
        base = work.inputs_for('ab', 3 if quick else 4, bytes_mode)
        k = 0
        for tag, x in gen.depth1(leaves, bytes_mode):
            if tag[0] == 'backright':
                continue                       # Backtrack: outside the relation's side condition
            k += 1
            cname, cstmts, ialpha = cfgs[k % len(cfgs)]
            sk = start_kinds[(k // len(cfgs)) % len(start_kinds)]
            after = (k // 7) % 2 == 1
            for ctx_name, cx in (('alone', x), ('seq-rest', ('seq', [x, ('re', '[ab]*', False) if not bytes_mode
                                                                         else ('bre', '[ab]*', False)]))):
                idx += 1
                if not rec.mine(idx):
                    continue
                G0 = gen.shape_grammar(cx, lrules)
                if not gen.well_formed(G0):
                    rec.drop()
                    continue
                G = with_ignore(G0, cstmts, after, sk)
                ins = spaced_inputs(rng, base, ialpha, bytes_mode, 4)
                run_one(rec, G, ins, tag + (ctx_name, cname, sk, 'after' if after else 'before'),
                        trace=(idx % 3 == 0), unit=None if isinstance(ialpha, str) else ' ')
    # literals in ARGUMENT position: every literal kind handed to a template (by position and by
    # keyword) and to a class template, under every ignore configuration -- a literal skips ignorable
    # text wherever it is written
    for bytes_mode in (False, True):
        if bytes_mode:
            lits = [('bstr', ('bstr', b'a')), ('bistr', ('bistr', b'a')), ('bre', ('bre', 'a+', False)), ('byte', ('byte', 0x61)), ('bre-i', ('bre', 'b', True))]
            rest = ('bre', '[ab]*', False)
        else:
            lits = [('str', ('str', 'a')), ('istr', ('istr', 'a')), ('re', ('re', 'a+', False)), ('re-i', ('re', 'b', True)), ('re-class', ('re', '[ab]', False)),
                    ('alt', ('alt', [('str', 'ab'), ('re', 'a', False)]))]
            rest = ('re', '[ab]*', False)
        base = work.inputs_for('ab', 3 if quick else 4, bytes_mode)
        for ltag, lit in lits:
            for atag, args in (('pos', [lit]), ('kw', [('kw', 'p', lit)])):
                for wtag, stmts in (('rule', [('rule', 'W', ['p'], ('seq', [('ref', 'p'), ('opt', ('ref', 'p'))]))]),
                                    ('class', [('class', 'W', ['p'], [('field', 'v', ('ref', 'p')), ('field', 'w', ('star', ('ref', 'p')))])]),
                                    ('nested', [('rule', 'W', ['p'], ('call', 'V', [('ref', 'p')])), ('rule', 'V', ['q'], ('plus', ('ref', 'q')))])):
                    for cname, cstmts, ialpha in ignore_configs(bytes_mode):
                        idx += 1
                        if not rec.mine(idx):
                            continue
                        if quick and (idx // 16) % 3 != rec.seed % 3:
                            continue
                        G0 = dict(name=None, extends=None, stmts=[('rule', 'start', None, ('seq', [('call', 'W', args), rest]))] + stmts)
                        G = with_ignore(G0, cstmts, idx % 2 == 0, 'start')
                        ins = spaced_inputs(rng, base, ialpha, bytes_mode, 4)
                        run_one(rec, G, ins, ('argument', ltag, atag, wtag, cname), trace=(idx % 3 == 0), unit=None if isinstance(ialpha, str) else ' ')
    # random multi-rule grammars with every ignore configuration
    n_random = 40 if quick else 900
    cfgs = ignore_configs(False)
    for i in range(n_random):
        if rec.out_of_time():
            rec.count('cut_by_time')
            break
        rg = gen.RandomGrammar(rng, maxdepth=rng.randint(2, 5))
        G0 = rg.grammar()
        if not gen.well_formed(G0):
            rec.drop()
            continue
        cname, cstmts, ialpha = rng.choice(cfgs)
        sk = rng.choice(start_kinds)
        G = with_ignore(G0, cstmts, rng.random() < 0.5, sk)
        base = work.inputs_for('abA', 3)
        ins = spaced_inputs(rng, rng.sample(base, 25), ialpha, False, 3)
        run_one(rec, G, ins, ('random', cname, sk), trace=(i % 3 == 0), unit=None if isinstance(ialpha, str) else ' ')


def replay(rec, rep):
    case = rep['case']
    if case.get('lengthen'):
        import ast
        b = diff.rebuild_from_case(rec, case)
        if b is None:
            return
        text = ast.literal_eval(case['text_repr'])
        r = diff.compare(rec, b, text, None, monitors=())
        if r:
            exp, o, model = r
            lengthening(rec, b, text, o, model, 'replay')
        b.cleanup()
        return
    work.generic_replay(rec, rep)
