"""C02 -- operator tables.

Monitors: (a) recorded tree/end vs the Pratt reference (oracle E1b inside the
reference model); (b) model-free re-reading: the in-order walk of the returned
Infix/Prefix/Postfix tree must reproduce the consumed input exactly."""
import itertools
import time

from .. import gast, gen, diff, work, observe

ID = 'C02'

KINDS = ['left', 'right', 'infix', 'prefix', 'postfix']
# a spelling with dots is an operator made of several literals, written as a sequence: '+.-' is ["+", "-"]
POOL = ['+', '-', '++', '+-', '!', 'not', '-+', '+.-', 'not.!', '-.-', '?word']


def op_parts(s):
    if s == '?word':
        return ['and']
    return s.split('.') if '.' in s else [s]


WORD_OPS = ('and', 'or')


def op_expr(s):
    if s == '?word':
        # an operator that is a regex accepted by a predicate: /[a-z]+/ where `lambda x: x in (...)`
        return ('where', ('re', '[a-z]+', False), ('py', 'lambda _x: _x in %r' % (WORD_OPS,)))
    parts = op_parts(s)
    return ('str', s) if len(parts) == 1 else ('seq', [('str', x) for x in parts])


def plan(tier, seed):
    return dict(
        shards=16,
        rule='seeded random operator tables (1-5 rows, every kind, spellings drawn from a pool built to '
             'clash: shared between prefix/infix/postfix rows and prefixes of one another, 1-3 per row), '
             'operand as literal regex / rule reference / class, optional parenthesis mixfix (discarding '
             'or class) and keyword ternary, with and without ignore; inputs = all token sequences over '
             'the table alphabet up to length 4 plus a seeded sample up to length 6 (quick) / 8 '
             '(thorough), also space separated.  Non-trivial = distinct (table,input) with >= 2 '
             'operators from >= 2 rows in the expected tree, or an unconsumed rest.',
        assumptions=['Pratt reference E1b (vlib/refpeg.py OpTable) encodes the statement',
                     're-reading is applied only to tables whose tree keeps every consumed token'],
    )


def inconclusive(counters, evaluations, tier):
    out = []
    if counters.get('reread_checked', 0) == 0:
        out.append('re-reading monitor evaluated nothing')
    return out


def random_table(rng):
    nrows = rng.randint(1, 5)
    rows = []
    for _ in range(nrows):
        kind = rng.choice(KINDS)
        ops = rng.sample(POOL, rng.choice([1, 1, 2, 2, 3]))
        rows.append((kind, ops))
    return rows


def build_grammar(rng, rows, operand_kind, paren, ignore, ternary):
    stmts = []
    if ignore:
        stmts.append(('ignore', ('re', ' +', False)))
    if operand_kind == 'lit':
        operand = ('re', '[0-9]', False)
    elif operand_kind == 'ref':
        operand = ('ref', 'N')
    elif operand_kind == 'choice':
        # an ordered choice written directly as the operand, an earlier alternative being a proper
        # prefix of a later one: the operand is what the choice commits to, mixfix rows or not
        operand = ('alt', [('str', '1'), ('str', '12'), ('str', '2')])
    else:
        operand = ('ref', 'Num')
    trows = []
    if paren == 'discard':
        trows.append(('mixfix', [('left', ('right', ('str', '('), ('ref', 'E')), ('str', ')'))]))
    elif paren == 'class':
        trows.append(('mixfix', [('ref', 'Paren')]))
    if ternary:
        trows.append(('mixfix', [('ref', 'Tern')]))
    for kind, ops in rows:
        trows.append((kind, [op_expr(s) for s in ops]))
    # shuffle position of the mixfix rows sometimes (precedence index only matters relatively)
    if trows and rng.random() < 0.3:
        mix = [r for r in trows if r[0] == 'mixfix']
        rest = [r for r in trows if r[0] != 'mixfix']
        k = rng.randint(0, len(rest))
        trows = rest[:k] + mix + rest[k:]
    stmts.append(('rule', 'start', None, ('ref', 'E')))
    stmts.append(('rule', 'E', None, ('optable', operand, trows)))
    if operand_kind == 'ref':
        stmts.append(('rule', 'N', None, ('re', '[0-9]', False)))
    elif operand_kind == 'class':
        stmts.append(('class', 'Num', None, [('field', 'd', ('re', '[0-9]', False))]))
    if paren == 'class':
        stmts.append(('class', 'Paren', None, [('field', 'open', ('str', '(')), ('field', 'e', ('ref', 'E')),
                                               ('field', 'close', ('str', ')'))]))
    if ternary:
        stmts.append(('class', 'Tern', None, [('field', 'kw', ('str', 'if')), ('field', 'c', ('ref', 'E')),
                                              ('field', 'kw2', ('str', 'then')), ('field', 't', ('ref', 'E'))]))
    return dict(name=None, extends=None, stmts=stmts)


def token_alphabet(rows, paren, ternary):
    al = ['1', '2']
    for _, ops in rows:
        for s in ops:
            for part in (['and', 'or', 'xor'] if s == '?word' else op_parts(s)):
                if part not in al:
                    al.append(part)
    if paren:
        al += ['(', ')']
    if ternary:
        al += ['if', 'then']
    return al


def sequences(rng, alphabet, full_len, max_len, nsample):
    out = []
    for n in range(0, full_len + 1):
        for tup in itertools.product(alphabet, repeat=n):
            out.append(tup)
    for _ in range(nsample):
        n = rng.randint(full_len + 1, max_len)
        out.append(tuple(rng.choice(alphabet) for _ in range(n)))
    return out


def well_formed_sequences(rng, rows, paren, n):
    """Seeded well-formed expressions, so that deep trees are dense in the workload."""
    pre = [s for k, ops in rows if k == 'prefix' for s in ops]
    post = [s for k, ops in rows if k == 'postfix' for s in ops]
    inf = [s for k, ops in rows if k in ('left', 'right', 'infix') for s in ops]
    out = []
    for _ in range(n):
        toks = []
        nops = rng.randint(1, 4)
        for i in range(nops):
            for _ in range(rng.choice([0, 0, 1, 2]) if pre else 0):
                toks.extend(op_parts(rng.choice(pre)))
            toks.append(rng.choice('123'))
            for _ in range(rng.choice([0, 0, 1, 2]) if post else 0):
                toks.extend(op_parts(rng.choice(post)))
            if i + 1 < nops:
                if not inf:
                    break
                toks.extend(op_parts(rng.choice(inf)))
        out.append(tuple(toks))
    return out


# -- model-free re-reading ----------------------------------------------------

def reread(v, text, p, skip_spaces):
    """Walk the tree in order, matching every leaf at offset p.  Returns the new
    offset or raises ValueError(where)."""
    if observe.is_parsed_object(v):
        name = type(v).__name__
        for f in type(v)._fields:
            p = reread(getattr(v, f), text, p, skip_spaces)
        return p
    if isinstance(v, list):
        # an operator made of several literals
        for x in v:
            p = reread(x, text, p, skip_spaces)
        return p
    if isinstance(v, str):
        if not text.startswith(v, p):
            raise ValueError('leaf %r not at offset %d' % (v, p))
        p += len(v)
        if skip_spaces:
            while p < len(text) and text[p] == ' ':
                p += 1
        return p
    raise ValueError('unexpected leaf %r' % (v,))


def count_ops(n, rows_seen=None):
    """(operators, distinct operator spellings) in a normalised tree."""
    ops = []
    stack = [n]
    while stack:
        x = stack.pop()
        if isinstance(x, tuple) and x and x[0] == 'obj':
            if x[1] in ('Infix', 'Prefix', 'Postfix'):
                for k, val in x[2]:
                    if k == 'operator':
                        ops.append(tuple(val) if isinstance(val, list) else val)
                    else:
                        stack.append(val)
            else:
                for k, val in x[2]:
                    stack.append(val)
    return ops


def run_table(rec, rng, rows, operand_kind, paren, ignore, ternary, quick):
    G = build_grammar(rng, rows, operand_kind, paren, ignore, ternary)
    if not gen.well_formed(G):
        rec.drop()
        return
    b = diff.build(rec, G)
    if b is None:
        return
    rec.count('tables')
    al = token_alphabet(rows, paren, ternary)
    full = 3 if len(al) > 6 else 4
    if not quick:
        full += 1 if len(al) <= 6 else 0
    seqs = sequences(rng, al, full, 6 if quick else 8, 150 if quick else 1200)
    seqs += well_formed_sequences(rng, rows, paren, 60 if quick else 400)
    rereadable = paren != 'discard'
    desc = b.descs[-1]
    feats = []
    spell = [s.replace('.', '') for _, ops in rows for s in ops if s != '?word']
    if any('.' in s for _, ops in rows for s in ops):
        feats.append('multi-literal-operator')
    if len(set(spell)) < len(spell):
        feats.append('shared-spelling')
    if any(a != c and c.startswith(a) for a in spell for c in spell):
        feats.append('prefix-spelling')
    if any(k == 'infix' for k, _ in rows):
        feats.append('nonassoc')
    for f in feats:
        rec.count('tables_with:' + f)
    seen = set()
    for seq in seqs:
        variants = [''.join(seq)]
        if ignore:
            variants.append(' '.join(seq) + ' ')
            variants.append(' ' + ' '.join(seq))
        elif any(t.isalpha() for t in seq):
            pass
        for text in variants:
            if text in seen:
                continue
            seen.add(text)
            r = diff.compare(rec, b, text, None, monitor='E1b', monitors=('value',))
            if r is None:
                continue
            exp, o, model = r
            if exp[0] in ('value', 'partial'):
                ops = count_ops(exp[1])
                if len(set(ops)) >= 2 or (exp[0] == 'partial' and ops):
                    rec.nontrivial((desc, text))
                if exp[0] == 'partial' and exp[2] > 0:
                    rec.count('expected_unconsumed_rest')
            # (b) re-reading, model free
            if rereadable and o.outcome[0] in ('value', 'partial'):
                end = len(text) if o.outcome[0] == 'value' else o.outcome[2]
                start = 0
                if ignore:
                    while start < len(text) and text[start] == ' ':
                        start += 1
                try:
                    got = reread(o.value, text, start, ignore)
                    ok = (got == end)
                    why = 'in-order reading ends at %d, parse consumed up to %d' % (got, end)
                except ValueError as e:
                    ok = False
                    why = str(e)
                rec.count('reread_checked')
                if not ok:
                    rec.violation('reread:mismatch', 're-reading of the returned tree',
                                  diff.case_dict(b, text, None, 0, True, reread=True, ignore=ignore),
                                  'tree reproduces exactly the consumed occurrences', why)
    rec.sample(dict(description=desc, sequences=len(seqs), alphabet=al), limit=2)
    b.cleanup()


def fixed_tables():
    """Hand-picked hostile tables (always run, on shard 0..n)."""
    return [
        [('infix', ['-']), ('prefix', ['-'])],
        [('prefix', ['-']), ('infix', ['-'])],
        [('left', ['+'])],
        [('right', ['+']), ('left', ['-'])],
        [('left', ['+', '++']), ('left', ['++', '+'])],
        [('postfix', ['+']), ('left', ['+'])],
        [('prefix', ['+']), ('postfix', ['+']), ('left', ['+'])],
        [('infix', ['+']), ('infix', ['-'])],
        # operators made of several literals next to operators that are one of their parts
        [('left', ['+.-', '+']), ('left', ['-'])],
        [('infix', ['not.!', 'not']), ('prefix', ['!'])],
        [('postfix', ['-.-', '-']), ('left', ['+'])],
        [('prefix', ['+.-', '+']), ('left', ['-'])],
        # an operator that is a regex accepted or rejected by a predicate (xor is rejected)
        [('left', ['?word']), ('left', ['+'])],
        [('postfix', ['?word']), ('left', ['+'])],
        [('prefix', ['?word']), ('left', ['+'])],
        [('infix', ['?word', 'not']), ('prefix', ['-'])],
        [('prefix', ['!']), ('right', ['+-', '+']), ('postfix', ['!']), ('left', ['-', '+'])],
        [('postfix', ['!']), ('prefix', ['not']), ('infix', ['-+', '-']), ('left', ['+'])],
    ]


def run_shard(rec):
    quick = rec.tier == 'quick'
    rec.deadline = time.time() + (300 if quick else 900)
    rng = rec.rng
    idx = 0
    for rows in fixed_tables():
        for operand_kind in ('lit', 'ref', 'class', 'choice'):
            for paren in (None, 'discard', 'class'):
                for ignore in (False, True):
                    idx += 1
                    if rec.mine(idx):
                        run_table(rec, rng, rows, operand_kind, paren, ignore, False, quick)
    ntables = 60 if quick else 1200
    for _ in range(ntables):
        if rec.out_of_time():
            rec.count('cut_by_time')
            break
        rows = random_table(rng)
        run_table(rec, rng, rows, rng.choice(['lit', 'ref', 'class', 'choice']),
                  rng.choice([None, None, 'discard', 'class']), rng.random() < 0.4,
                  rng.random() < 0.15, quick)


def replay(rec, rep):
    case = rep['case']
    if case.get('reread'):
        import ast
        b = diff.rebuild_from_case(rec, case)
        if b is None:
            return
        text = ast.literal_eval(case['text_repr'])
        o = observe.observe(b.g, text)
        if o.outcome[0] in ('value', 'partial'):
            end = len(text) if o.outcome[0] == 'value' else o.outcome[2]
            ignore = case.get('ignore')
            start = 0
            if ignore:
                while start < len(text) and text[start] == ' ':
                    start += 1
            try:
                got = reread(o.value, text, start, ignore)
                ok = got == end
                why = 'reading ends at %d, consumed %d' % (got, end)
            except ValueError as e:
                ok, why = False, str(e)
            if not ok:
                rec.violation('reread:mismatch', 're-reading', case, 'tree reproduces input', why)
        b.cleanup()
        return
    work.generic_replay(rec, rep)
