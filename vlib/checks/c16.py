"""C16 -- transform rewrites bottom-up, once per node, preserving metadata.

Monitors: callback log of the real transform() (sequence of (callback index,
class, shape of the node as seen by the callback)) compared with the log of a
reference bottom-up rewrite; structural comparison of the result; metadata of
every result node; deep identity/metadata snapshot of the input before/after."""
import time

from .. import diff, observe, forest, corpus

ID = 'C16'


def plan(tier, seed):
    return dict(
        shards=16,
        rule='random forests (as C14/C15, incl. shared sub-objects, lists, tuples, dicts, position metadata) x '
             'callback families {identity, class -> other object, class -> non-object, class -> list, '
             'replacement carrying its own metadata, replacement without metadata, rebuild-from-children} x '
             'chains of 1-3 callbacks; plus the translator\'s own use of transform on the metaparser\'s '
             'trees of every repository description.  One evaluation = one transform call compared.  '
             'Non-trivial = distinct (tree, callback chain) in which >= 1 callback replaced a node.',
        assumptions=['reference bottom-up rewrite vlib/forest.py ref_transform', 'callbacks never raise and are pure',
                     'tuples and dicts are leaves for transform (the statement names fields and lists only)'],
    )


def inconclusive(counters, evaluations, tier):
    out = []
    for k in ('transforms_compared', 'callback_invocations', 'metaparser_transforms'):
        if counters.get(k, 0) == 0:
            out.append('%s never evaluated' % k)
    return out


def callback_families(g, rng):
    def identity(n):
        return n

    def u1_to_v1(n):
        if isinstance(n, g.U1):
            return g.V1(n.a)
        return n

    def v1_to_str(n):
        if isinstance(n, g.V1):
            return 'was-V1'
        return n

    def b2_to_list(n):
        if isinstance(n, g.B2):
            return [n.a, n.b]
        return n

    def t3_with_meta(n):
        if isinstance(n, g.T3):
            r = g.T3(n.a, n.b, n.c)
            r._metadata.position_info = 'own-metadata'
            return r
        return n

    def q5_without_meta(n):
        if isinstance(n, g.Q5):
            return g.B2(n.a, n.e)
        return n

    def infix_to_prefix(n):
        if isinstance(n, g.Infix):
            return g.Prefix(n.operator, n.right)
        return n

    def rebuild(n):
        if isinstance(n, g.ParsedObject) and type(n)._fields:
            return n._replace()
        return n

    def z0_to_none(n):
        if isinstance(n, g.Z0):
            return None
        return n

    def wrap_v1(n):
        # wraps (does not replace) what an earlier callback may have made: the wrapped object keeps
        # whatever metadata it had when this callback saw it
        if isinstance(n, g.V1):
            return g.B2(n, 'wrapped')
        return n

    def wrap_b2_in_list(n):
        if isinstance(n, g.B2):
            return [n, g.Z0()]
        return n

    def u1_to_parsed_operator(n):
        # the replacement is itself the result of a parse: an operator node, which records no span
        if isinstance(n, g.U1):
            return g.parse('1+2')[0]
        return n

    def b2_to_parsed_prefix(n):
        if isinstance(n, g.B2):
            return g.parse('-1!')[0]
        return n

    def unwrap_b2(n):
        # hands back an object that is part of the INPUT tree (a child of the node, untouched by the
        # earlier transformation of the children unless one of them changed)
        if isinstance(n, g.B2) and isinstance(n.a, g.ParsedObject):
            return n.a
        return n

    def hoist_operand(n):
        if isinstance(n, (g.Infix, g.Postfix)) and isinstance(n.left, g.ParsedObject):
            return n.left
        if isinstance(n, g.T3) and isinstance(n.b, g.ParsedObject):
            return n.b
        return n

    return [unwrap_b2, hoist_operand, identity, u1_to_v1, v1_to_str, b2_to_list, t3_with_meta, q5_without_meta, infix_to_prefix, rebuild, z0_to_none,
            wrap_v1, wrap_b2_in_list, u1_to_parsed_operator, b2_to_parsed_prefix]


def logged(g, cbs, log):
    out = []
    for i, cb in enumerate(cbs):
        def wrapper(node, i=i, cb=cb):
            log.append((i, type(node).__name__, forest._shape(g, node)))
            # what the callback can see of the node's metadata (a replacement made by an earlier
            # callback already stands for the node)
            if isinstance(node, g.ParsedObject):
                log.append(('meta', i, repr(sorted(node._metadata._fields.items()))))
            return cb(node)
        out.append(wrapper)
    return out


def result_equal(g, a, b):
    """Structural equality incl. container types, object classes and metadata."""
    stack = [(a, b)]
    while stack:
        x, y = stack.pop()
        if isinstance(x, g.ParsedObject) or isinstance(y, g.ParsedObject):
            if type(x) is not type(y):
                return 'class %s vs %s' % (type(x).__name__, type(y).__name__)
            mx, my = dict(x._metadata._fields), dict(y._metadata._fields)
            if mx != my:
                return 'metadata of %s: %r vs %r' % (type(x).__name__, mx, my)
            for f in type(x)._fields:
                stack.append((getattr(x, f), getattr(y, f)))
        elif isinstance(x, (list, tuple)) or isinstance(y, (list, tuple)):
            if type(x) is not type(y) or len(x) != len(y):
                return 'container %r vs %r' % (type(x).__name__, type(y).__name__)
            stack.extend(zip(x, y))
        elif isinstance(x, dict) or isinstance(y, dict):
            if not (isinstance(x, dict) and isinstance(y, dict)) or list(map(repr, x)) != list(map(repr, y)):
                return 'dict keys differ'
            stack.extend((x[k], y[k]) for k in x)
        else:
            if type(x) is not type(y) or x != y:
                return 'leaf %r vs %r' % (x, y)
    return None


def paired_objects(g, a, b, limit):
    """Corresponding object occurrences of two structurally equal values (lock-step walk)."""
    out = []
    stack = [(a, b)]
    while stack and len(out) < limit:
        x, y = stack.pop()
        if isinstance(x, g.ParsedObject) and isinstance(y, g.ParsedObject) and type(x) is type(y):
            out.append((x, y))
            for f in type(x)._fields:
                stack.append((getattr(x, f), getattr(y, f)))
        elif isinstance(x, (list, tuple)) and isinstance(y, (list, tuple)) and len(x) == len(y):
            stack.extend(zip(x, y))
        elif isinstance(x, dict) and isinstance(y, dict) and len(x) == len(y):
            stack.extend(zip(x.values(), y.values()))
    return out


def check(rec, g, root, cbs, case):
    rec.case()
    # values may have been hashed before they are transformed (hashes are memoised on the objects)
    if rec.rng.random() < 0.5:
        for x in forest.ref_visit(g, root)[:30]:
            try:
                hash(x)
            except TypeError:
                pass
    before = forest.snapshot(g, root)
    log_real, log_ref = [], []
    try:
        got = g.transform(root, *logged(g, cbs, log_real))
    except Exception as e:
        rec.violation('transform:%s' % type(e).__name__, 'transform', case, 'a result', '%s: %s' % (type(e).__name__, str(e)[:120]))
        return
    after = forest.snapshot(g, root)
    if before != after:
        rec.violation('transform:input-modified', 'input snapshot before/after', case, 'input untouched', 'input tree changed')
    want = forest.ref_transform(g, root, cbs, log_ref)
    rec.count('transforms_compared')
    rec.count('callback_invocations', len(log_real))
    if log_real != log_ref:
        k = next((i for i, (a, b) in enumerate(zip(log_real, log_ref)) if a != b), min(len(log_real), len(log_ref)))
        rec.violation('transform:callback-log-differs', 'callback log vs reference order', case,
                      '%d calls; #%d = %s' % (len(log_ref), k, str(log_ref[k])[:160] if k < len(log_ref) else 'end'),
                      '%d calls; #%d = %s' % (len(log_real), k, str(log_real[k])[:160] if k < len(log_real) else 'end'))
        return
    why = result_equal(g, want, got)
    if why is not None:
        rec.violation('transform:result-differs', 'result vs reference rewrite', case, 'equal structure and metadata', why)
    else:
        # the rebuilt nodes are values of their own: they hash like the reference's freshly built ones
        for a, b2 in paired_objects(g, want, got, 40):
            try:
                ha, hb = hash(a), hash(b2)
            except TypeError:
                continue
            rec.count('result_hashes_compared')
            if ha != hb:
                rec.violation('transform:result-hash-differs', 'hash of result nodes vs freshly built reference nodes', case,
                              ha, hb)
                break
    if not cbs and got is not root:
        rec.violation('transform:no-callbacks', 'transform without callbacks', case, 'the input itself', 'a different object')
    if cbs and all(cb.__name__ == 'identity' for cb in cbs):
        if result_equal(g, root, got) is not None:
            rec.violation('transform:identity-not-equal', 'identity callback', case, 'result equals input', result_equal(g, root, got))
    if result_equal(g, root, got) is not None:
        rec.nontrivial(('tr', id(root), tuple(cb.__name__ for cb in cbs)))


def metaparser_use(rec):
    """The translator's own use: transform(parsed.body, _create_parsing_expression), observed
    through the shipped parser module while descriptions are compiled."""
    sourcer = observe.load_sourcer()
    from sourcer import parser as gen0
    orig = gen0.transform
    calls = []

    def spy(node, *callbacks):
        log_real = []
        wrapped = logged(gen0, callbacks, log_real)
        before = forest.snapshot(gen0, node)
        result = orig(node, *wrapped)
        calls.append((node, callbacks, log_real, before, result))
        return result

    gen0.transform = spy
    try:
        for origin, d in corpus.repository_descriptions()[:40]:
            del calls[:]
            r = observe.compile_grammar(d)
            rec.case()
            for node, callbacks, log_real, before, result in calls:
                rec.count('metaparser_transforms')
                log_real = [e for e in log_real if e[0] != 'meta']
                rec.count('callback_invocations', len(log_real))
                if forest.snapshot(gen0, node) != before:
                    rec.violation('transform:input-modified', 'metaparser tree snapshot', dict(kind='meta', origin=origin), 'untouched', 'changed')
                # bottom-up, once per occurrence: the number of callback calls equals the number of
                # object occurrences reachable through fields and lists
                n_occ = count_occurrences(gen0, node)
                if len(log_real) != n_occ * len(callbacks):
                    rec.violation('transform:call-count', 'metaparser callback count', dict(kind='meta', origin=origin),
                                  n_occ * len(callbacks), len(log_real))
                rec.nontrivial(('meta', origin, id(node)))
    finally:
        gen0.transform = orig


def count_occurrences(g, node):
    n = 0
    stack = [node]
    while stack:
        v = stack.pop()
        if isinstance(v, list):
            stack.extend(v)
        elif isinstance(v, g.ParsedObject):
            n += 1
            stack.extend(getattr(v, f) for f in type(v)._fields)
    return n


def deep_transform(rec, depth):
    """A chain of nested objects `depth` levels deep, out of a parse (every level has its span); the
    callback replaces the innermost object by a fresh one.  Every ancestor is copied because its child
    changed: each copy carries the position metadata of the node it stands for, at EVERY depth; the input
    keeps its own objects and metadata."""
    r = observe.compile_grammar('start = P\nclass P { inner: "(" >> (P | N) << ")" ; tail: "!"? }\nclass N { d: /[0-9]/ }\nclass M { was: /x/ }\n')
    if r[0] != 'ok':
        rec.violation('deep:grammar-error', 'Grammar()', dict(kind='deep-transform'), 'module', r)
        return
    g = r[1]
    text = '(' * depth + '7' + ')' * depth
    tree = g.parse(text)
    before = []
    node = tree
    while isinstance(node, g.P):
        before.append((id(node), node._metadata.position_info))
        node = node.inner
    calls = []

    def swap(n):
        calls.append(type(n).__name__)
        return g.M('seven') if isinstance(n, g.N) else n

    case = dict(kind='deep-transform', depth=depth)
    rec.case()
    rec.nontrivial(('deep-transform', depth))
    try:
        out = g.transform(tree, swap)
    except RecursionError as e:
        rec.count('deep_transform_recursion_errors')
        rec.note('transform of a %d-deep chain: RecursionError (the statement does not promise depth independence of transform)' % depth)
        return
    rec.count('deep_transforms')
    if len(calls) != depth + 1:
        rec.violation('deep:callback-count', 'callback log on a deep chain', case, depth + 1, len(calls))
    a, b, lvl = tree, out, 0
    while isinstance(a, g.P):
        if not isinstance(b, g.P) or b is a:
            rec.violation('deep:not-rebuilt', 'deep chain: every ancestor of a changed node is a new object', dict(case, level=lvl), 'a copy', type(b).__name__)
            break
        if b._metadata.position_info != a._metadata.position_info or a._metadata.position_info is None:
            rec.violation('deep:copy-lost-metadata', 'deep chain: a copy carries the position metadata of the node it stands for',
                          dict(case, level=lvl), repr(a._metadata.position_info), repr(b._metadata.position_info))
            break
        a, b, lvl = a.inner, b.inner, lvl + 1
    else:
        if not (isinstance(a, g.N) and isinstance(b, g.M) and b._metadata.position_info == a._metadata.position_info):
            rec.violation('deep:replacement-metadata', 'deep chain: the replacement carries the metadata of the node it stands for', case,
                          repr(getattr(a, '_metadata', None) and a._metadata.position_info), repr(getattr(b, '_metadata', None) and b._metadata.position_info))
    node, i = tree, 0
    while isinstance(node, g.P):
        if (id(node), node._metadata.position_info) != before[i]:
            rec.violation('deep:input-modified', 'deep chain: the input is untouched', dict(case, level=i), 'unchanged', 'changed')
            break
        node, i = node.inner, i + 1


def run_shard(rec):
    quick = rec.tier == 'quick'
    rec.deadline = time.time() + (300 if quick else 600)
    if rec.shard == 4:
        for depth in (50, 199, 201, 260, 420):
            deep_transform(rec, depth)
    g = forest.load_module()
    rng = rec.rng
    fams = callback_families(g, rng)
    n = 1500 if quick else 300000
    for k in range(n):
        if rec.out_of_time():
            rec.count('cut_by_time')
            break
        fgen = forest.ForestGen(rng, g, share=rng.choice([0.0, 0.2, 0.4]), named_tuples=True)
        root = fgen.obj(rng.randint(1, 5)) if rng.random() < 0.8 else fgen.tree(rng.randint(1, 4))
        ncb = rng.choice([0, 1, 1, 1, 2, 2, 3])
        cbs = [rng.choice(fams) for _ in range(ncb)]
        check(rec, g, root, cbs, dict(kind='forest', seed=rec.seed, shard=rec.shard, forest=k,
                                      callbacks=[cb.__name__ for cb in cbs], tree=repr(root)[:300]))
        if k == 0:
            rec.sample(dict(tree=repr(root)[:300], callbacks=[cb.__name__ for cb in cbs]), limit=2)
    for text in ['abab', 'aabcde1+2', '-1!+2+3', 'vvabcz']:
        o = observe.observe(g, text)
        if o.outcome[0] == 'value':
            for cbs in ([fams[0]], [fams[1], fams[2]], [fams[6], fams[7]], fams[1:4]):
                check(rec, g, o.value, cbs, dict(kind='parse-result', text_repr=repr(text), callbacks=[cb.__name__ for cb in cbs]))
    if rec.shard == 0:
        metaparser_use(rec)


def replay(rec, rep):
    if rep['case'].get('kind') == 'deep-transform':
        return deep_transform(rec, rep['case'].get('depth', 260))
    import random
    case = rep['case']
    rec.seed = case.get('seed', rec.seed)
    rec.shard = case.get('shard', 0)
    rec.rng = random.Random((rec.seed * 1000003 + rec.shard) & 0xffffffff)
    run_shard(rec)
