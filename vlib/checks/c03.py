"""C03 -- bounded repetition and separated lists honour bounds and options.

Monitor: boundary recorder vs reference model E1 (bounds, Sep options) with
the construct under test placed in hostile contexts; M-trace List/Sep rules."""
import itertools
import time

from .. import gast, gen, diff, work, observe

ID = 'C03'


def plan(tier, seed):
    return dict(
        shards=16,
        rule='all bound forms e{n} e{m,n} e{m,} e{,n} for 0<=m<=n<=4 x 4 element shapes x 8 contexts; the '
             'same bounds supplied at run time through let / class field / template parameter / inline '
             'Python; Sep with all 12 accepted option sets x elements x separators x contexts (operator '
             'form where one exists) and the 4 rejected sets; inputs = all strings over {a,b,","} up to '
             'length 5 (quick) / 6 (thorough).  Non-trivial = distinct (description,input) whose model '
             'run has >= 1 undo event (bound or option forced a restore).',
        assumptions=['reference model E1', 'generators emit only well-formed grammars'],
    )


ELEMS = {
    'lit': ('str', 'a'),
    'seq': ('seq', [('str', 'a'), ('str', 'b')]),         # fails after consuming
    'alt': ('alt', [('str', 'a'), ('str', 'bb')]),
    'ref': ('ref', 'E'),
}
SEPS = {
    'lit': ('str', ','),
    'seq': ('seq', [('str', ','), ('str', 'b')]),
    'alt': ('alt', [('str', ','), ('str', 'b,')]),
}
# more element / separator shapes (nullable separator, optional prefix, nested lists,
# lookahead-guarded elements, regex)
ELEMS_MORE = {
    'optprefix': ('seq', [('opt', ('str', 'b')), ('str', 'a')]),
    'regex': ('re', 'a+', False),
    'guarded': ('right', ('expectnot', ('str', 'ab')), ('re', '[ab]', False)),
    'nested': ('seq', [('str', 'b'), ('sep', ('str', 'a'), ('str', ','), {'_op': '//'})]),
}
SEPS_MORE = {
    'nullable': ('opt', ('str', ',')),
    'regex': ('re', ',+', False),
    'keepalt': ('alt', [('str', ','), ('str', 'b')]),
}
EXTRA = {'E': ('alt', [('seq', [('str', 'a'), ('str', 'a')]), ('str', 'b')])}
REST = ('re', '[ab,]*', False)


def contexts(x, nonnull):
    yield 'alone', x
    yield 'seq-tail', ('seq', [x, REST])
    yield 'alt', ('alt', [('seq', [x, ('str', '!')]), REST])
    yield 'alt2', ('alt', [x, ('str', 'ab'), REST]) if nonnull else ('alt', [('seq', [x, ('fail', None)]), REST])
    yield 'opt-tail', ('right', ('opt', x), REST)
    yield 'expect', ('seq', [('expect', x), REST])
    yield 'expectnot', ('seq', [('expectnot', x), REST])
    if nonnull:
        yield 'star', ('seq', [('star', x), REST])
        # the loop behind every ignore declaration: a Skip whose only / last operand is the repetition
        yield 'skip', ('seq', [('skip', [x]), REST])
        yield 'skip-last', ('seq', [('skip', [('str', '!'), x]), REST])


def bound_forms():
    for m in range(0, 5):
        for n in range(m, 5):
            yield ('mn', m, n)
    for n in range(0, 5):
        yield ('n', n, n)
        yield ('m_', n, None)
        yield ('_n', None, n)


def all_sep_options():
    keys = ('discard_separators', 'allow_trailer', 'allow_empty', 'require_separator')
    for vals in itertools.product((True, False), repeat=4):
        yield dict(zip(keys, vals))


def run_shard(rec):
    quick = rec.tier == 'quick'
    rec.deadline = time.time() + (300 if quick else 900)
    maxlen = 5 if quick else 7
    # (the additional element / separator shapes were thorough-only at first; the whole workload takes
    # seconds, so both tiers use them and differ in input length only)
    ELEMS.update(ELEMS_MORE)
    SEPS.update(SEPS_MORE)
    ins = work.inputs_for('ab,', maxlen)
    ins_small = work.inputs_for('ab,', 4 if quick else 5)
    idx = 0
    an_cache = {}

    def go(x, tag, extra_rules=None, inputs=ins, trace=False):
        rules = dict(EXTRA)
        if extra_rules:
            rules.update(extra_rules)
        G = gen.shape_grammar(x, rules)
        # keep E when templates/classes refer to it
        if not gen.well_formed(G):
            rec.drop()
            return
        work.run_grammar(rec, G, inputs, tag, trace=trace)

    # --- static bounds
    for form, m, n in bound_forms():
        for ename, e in ELEMS.items():
            x = ('rep', e, m, n)
            nonnull = bool(m)
            for cname, cx in contexts(x, nonnull):
                idx += 1
                if not rec.mine(idx):
                    continue
                go(cx, ('static-' + form, ename, cname), trace=(idx % 4 == 0),
                   inputs=ins if cname in ('alone', 'seq-tail', 'alt2') else ins_small)
    # --- bounded repetition of elements that cannot fail (they match the empty string once the input
    #     runs out): the count is still honoured
    NULLABLE = {'opt': ('opt', ('str', 'a')), 'star': ('star', ('str', 'a')), 'optseq': ('opt', ('seq', [('str', 'a'), ('str', 'b')])),
                'py': ('py', "'x'"), 'nullregex': ('re', 'a?', False), 'refopt': ('ref', 'N')}
    for form, m, n in bound_forms():
        if n is None:
            continue
        for ename, e in NULLABLE.items():
            x = ('rep', e, m, n)
            for cname, cx in (('alone', x), ('seq-tail', ('seq', [x, REST])), ('alt', ('alt', [('seq', [x, ('str', '!')]), REST]))):
                idx += 1
                if rec.mine(idx):
                    go(cx, ('static-nullable-' + form, ename, cname), extra_rules={'N': ('opt', ('str', 'a'))}, inputs=ins_small)
    # --- bounds written with different digit counts ({2,10}: the bounds arrive as text)
    wide_inputs = ['a' * k + t for k in range(0, 14) for t in ('', 'b', ',')]
    for m, n in [(2, 10), (9, 12), (10, 11), (0, 10), (10, None), (None, 10), (12, 12), (1, 100), (9, 10)]:
        for cname, cx in (('alone', ('rep', ('str', 'a'), m, n)), ('seq-tail', ('seq', [('rep', ('str', 'a'), m, n), REST])),
                          ('alt', ('alt', [('seq', [('rep', ('str', 'a'), m, n), ('str', '!')]), REST]))):
            idx += 1
            if rec.mine(idx):
                go(cx, ('static-wide', 'lit', cname), inputs=wide_inputs)
    # --- separated lists, all option sets
    for o in all_sep_options():
        accepted = not (o['require_separator'] and not o['allow_trailer'])
        for ename, e in ELEMS.items():
            for sname, s in SEPS.items():
                oo = dict(o)
                if o['discard_separators'] and o['allow_empty'] and not o['require_separator']:
                    oo['_op'] = '/?' if o['allow_trailer'] else '//'
                x = ('sep', e, s, oo)
                if not accepted:
                    idx += 1
                    if rec.mine(idx):
                        reject_case(rec, x)
                    continue
                nonnull = not o['allow_empty']
                for cname, cx in contexts(x, nonnull):
                    idx += 1
                    if not rec.mine(idx):
                        continue
                    go(cx, ('sep', ename + '/' + sname, cname), trace=(idx % 4 == 0),
                       inputs=ins if cname in ('alone', 'seq-tail') else ins_small)
                # explicit Sep(...) spelling of the operator forms too
                if '_op' in oo:
                    idx += 1
                    if rec.mine(idx):
                        x2 = ('sep', e, s, {k: v for k, v in oo.items() if k != '_op'})
                        go(('seq', [x2, REST]), ('sep-ctor', ename + '/' + sname, 'seq-tail'), inputs=ins_small)
    # --- a separated list written INLINE inside the element of another one (the two loops live in one
    # generated function): every pairing of four option sets, kept and discarded separators
    NEST_OPTS = [dict(discard_separators=True, allow_trailer=True, allow_empty=True, require_separator=True),
                 dict(discard_separators=True, allow_trailer=True, allow_empty=False, require_separator=True),
                 dict(discard_separators=False, allow_trailer=True, allow_empty=True, require_separator=True),
                 dict(discard_separators=True, allow_trailer=False, allow_empty=True, require_separator=False),
                 dict(discard_separators=False, allow_trailer=True, allow_empty=False, require_separator=False)]
    nest_ins = [t for t in work.inputs_for('a,;()', 6 if quick else 7) if t.count('(') == t.count(')') and t.count('(') <= 2
                and '((' not in t and (not t or t[0] in '(a')]
    for oi, oo in enumerate(NEST_OPTS):
        for ii, io in enumerate(NEST_OPTS):
            for shape in ('paren', 'bare'):
                idx += 1
                if not rec.mine(idx):
                    continue
                inner = ('sep', ('str', 'a'), ('str', ','), dict(io))
                elem = ('right', ('str', '('), ('left', inner, ('str', ')'))) if shape == 'paren' else ('seq', [('str', '('), inner])
                x = ('sep', elem, ('str', ';'), dict(oo))
                go(('seq', [x, ('re', '[a,;()]*', False)]), ('sep-nested', '%d/%d' % (oi, ii), shape), inputs=nest_ins)
    # --- data-dependent bounds
    digits_ins = [d + t for d in '01234' for t in work.inputs_for('ab', 5 if quick else 6)]
    NUM = ('apply', ('re', '[0-9]', False), ('py', 'int'))
    for ename in ('lit', 'seq', 'alt'):
        e = ELEMS[ename]
        for bform in ('n', '_n', 'n_', 'py', 'pyrange', 'nn', 'pycond', 'pyor', 'pycond-max', 'pylambda'):
            if bform == 'n':
                m, n = ('name', 'n'), ('name', 'n')
            elif bform == '_n':
                m, n = None, ('name', 'n')
            elif bform == 'n_':
                m, n = ('name', 'n'), None
            elif bform == 'py':
                m, n = ('py', 'n'), ('py', 'n')
            elif bform == 'pyrange':
                m, n = ('py', 'max(n - 1, 0)'), ('py', 'n + 1')
            # inline Python whose top-level operator binds more loosely than a comparison
            elif bform == 'pycond':
                m, n = ('py', 'n if n < 3 else 1'), ('py', 'n if n < 3 else 1')
            elif bform == 'pyor':
                m, n = ('py', 'n - 2 or 1'), ('py', 'n or 2')
            elif bform == 'pycond-max':
                m, n = None, ('py', '2 if n else 3')
            elif bform == 'pylambda':
                m, n = ('py', '(lambda k: k // 2)(n)'), ('py', 'n and n + 1')
            else:
                m, n = 1, ('name', 'n')
            x = ('rep', e, m, n)
            tail = ('re', '[ab]*', False)
            for how in ('let', 'class', 'param', 'param-py', 'let-alt', 'let-opt'):
                idx += 1
                if not rec.mine(idx):
                    continue
                if how == 'let':
                    G = gast.simple_grammar({'start': ('let', 'n', NUM, ('seq', [x, tail]))})
                elif how == 'let-alt':
                    G = gast.simple_grammar({'start': ('let', 'n', NUM,
                                                       ('alt', [('seq', [x, ('str', '!')]), tail]))})
                elif how == 'let-opt':
                    G = gast.simple_grammar({'start': ('let', 'n', NUM,
                                                       ('seq', [('opt', ('seq', [x, ('str', '!')])), tail]))})
                elif how == 'class':
                    G = dict(name=None, extends=None, stmts=[
                        ('class', 'start', None, [('field', 'n', NUM), ('field', 'items', x),
                                                  ('field', 'rest', tail)])])
                elif how == 'param':
                    G = dict(name=None, extends=None, stmts=[
                        ('rule', 'start', None, ('let', 'k', NUM, ('seq', [('call', 'T', [('ref', 'k')]), tail]))),
                        ('rule', 'T', ['n'], x)])
                else:
                    G = dict(name=None, extends=None, stmts=[
                        ('rule', 'start', None, ('let', 'k', NUM,
                                                 ('seq', [('call', 'T', [('py', 'k')]), tail]))),
                        ('rule', 'T', ['n'], x)])
                work.run_grammar(rec, G, digits_ins, ('dynamic-' + bform, ename, how),
                                 nontrivial=lambda exp, o, model: True)


def reject_case(rec, x):
    """The constructor must reject require_separator without allow_trailer."""
    G = gast.simple_grammar({'start': x})
    d = gast.render_grammar(G)
    r = observe.compile_grammar(d)
    rec.case()
    rec.count('rejected_option_sets_checked')
    if r[0] == 'ok':
        rec.violation('sep-options-not-rejected', 'Grammar() outcome',
                      dict(kind='reject', grammars_repr=repr([G]), descs=[d]),
                      'Grammar() raises for require_separator without allow_trailer', 'module returned')


def replay(rec, rep):
    case = rep['case']
    if case.get('kind') == 'reject':
        import ast
        G = ast.literal_eval(case['grammars_repr'])[0]
        reject_case(rec, [s for s in G['stmts'] if s[0] == 'rule'][0][3])
        return
    work.generic_replay(rec, rep)
