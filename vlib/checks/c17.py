"""C17 -- nesting depth never changes meaning or exhausts the Python stack.

Monitors: (a) wrapped-vs-unwrapped: an inner expression wrapped in k
semantically transparent layers must yield the correspondingly wrapped result
(reference model on the wrapped AST, and a direct real-vs-real relation to the
unwrapped grammar on successful parses) for every k crossing the generator's
block budget; (b) deep inputs under sys.setrecursionlimit(current depth + 100)
with a sys.monitoring frame-depth high-water probe: the depth reached inside
emitted code must not grow with the input's nesting."""
import sys
import time

from .. import gast, gen, diff, work, observe, refpeg, probes

ID = 'C17'

DEPTHS_QUICK = list(range(1, 26)) + [30, 38, 39, 40, 41, 42, 58, 60, 62, 80, 100, 120]
DEPTHS_THOROUGH = list(range(1, 131)) + [150, 200]


def plan(tier, seed):
    return dict(
        shards=16,
        rule='inner expression in {literal, rule reference, literal under ignore, template call, bound name, '
             'class reference, regex, choice} x wrapper in {[e], (e), e?, "zz" | [e], e << "", Expect(e) >> e, '
             'seeded mixtures} x nesting depth 1..25, 30, 38..42, 58..62, 80, 100, 120 (quick) / 1..130, 150, '
             '200 (thorough) x {unnamed, named}; inputs = the strings the inner expression accepts plus '
             'near misses; deep inputs: 10^4 (quick) / 10^5 (thorough) nested brackets through a plain '
             'rule, a template, a class and a rule under ignore, compared iteratively.  Non-trivial = '
             'distinct (inner, wrapper, depth, naming, input) with depth >= 10.',
        assumptions=['reference model E1 on the wrapped AST', 'frame depth is sampled at PY_START of emitted '
                     'functions'],
    )


def inconclusive(counters, evaluations, tier):
    out = []
    if counters.get('deep_inputs_parsed', 0) == 0:
        out.append('no deep input parsed')
    if counters.get('depth_probe_events', 0) == 0:
        out.append('frame-depth probe saw no event')
    return out


def inners():
    T = ('re', '[ab]', False)
    return [
        ('literal', ('str', 'a'), {}, []),
        ('regex', T, {}, []),
        ('ref', ('ref', 'R'), {'R': ('seq', [('str', 'a'), ('opt', ('str', 'b'))])}, []),
        ('choice', ('alt', [('str', 'ab'), ('str', 'a')]), {}, []),
        ('literal-ignore', ('str', 'a'), {}, [('ignore', ('re', ' +', False))]),
        ('ref-ignore', ('ref', 'R'), {'R': ('seq', [('str', 'a'), ('opt', ('str', 'b'))])}, [('ignore', ('str', ' '))]),
        ('template', ('call', 'W', [('str', 'a')]), {}, [('rule', 'W', ['p'], ('seq', [('ref', 'p'), ('opt', ('str', 'b'))]))]),
        ('class', ('ref', 'K'), {}, [('class', 'K', None, [('field', 'x', ('str', 'a')), ('field', 'y', ('opt', ('str', 'b')))])]),
        # regex and case-insensitive literals followed by ignorable input, nothing else in the nest
        ('regex-ignore', ('seq', [T, ('opt', ('re', 'b', False))]), {}, [('ignore', ('re', ' +', False))]),
        ('istr-ignore', ('seq', [('istr', 'a'), ('opt', ('istr', 'b'))]), {}, [('ignore', ('str', ' '))]),
        # byte literals (bytes input), alone and followed by ignorable input
        ('byte', ('seq', [('byte', 0x61), ('opt', ('byte', 0x62))]), {}, []),
        ('byte-ignore', ('seq', [('byte', 0x61), ('opt', ('byte', 0x62))]), {}, [('ignore', ('byte', 0x20))]),
        ('bytes-literal-ignore', ('seq', [('bstr', b'a'), ('opt', ('bre', 'b', False))]), {}, [('ignore', ('bre', ' +', False))]),
        # a let *inside* the nest whose body is directly the use of the name (count / inline Python)
        ('let-count', ('let', 'n', ('apply', ('re', '[ab]', False), ('py', "lambda c: {'a': 1, 'b': 2}[c]")),
                       ('rep', ('str', 'b'), ('name', 'n'), ('name', 'n'))), {}, []),
        ('let-read', ('let', 'v', T, ('py', 'v')), {}, []),
        ('let-where', ('let', 'v', T, ('where', T, ('py', 'lambda w: w != v'))), {}, []),
        # expressions that mention a rule / an ignorable literal but never get to call anything
        ('empty-literal-ignore', ('str', ''), {}, [('ignore', ('re', ' +', False))]),
        ('zero-count-ref', ('rep', ('ref', 'Rb'), 0, 0), {'Rb': ('str', 'b')}, []),
        ('zero-count-literal-ignore', ('rep', ('str', 'a'), None, 0), {}, [('ignore', ('str', ' '))]),
        ('zero-count-call', ('seq', [('rep', ('call', 'W', [('str', 'b')]), 0, 0), ('opt', ('str', 'a'))]), {}, [('rule', 'W', ['p'], ('seq', [('ref', 'p'), ('opt', ('str', 'b'))]))]),
        # a choice whose LAST alternative always succeeds and is the only place that calls a rule / template
        ('choice-opt-ref', ('alt', [('str', 'a'), ('opt', ('ref', 'Rb'))]), {'Rb': ('str', 'b')}, []),
        ('choice-star-ref', ('alt', [('str', 'a'), ('star', ('ref', 'Rb'))]), {'Rb': ('str', 'b')}, []),
        ('choice-opt-call', ('alt', [('str', 'a'), ('opt', ('call', 'W', [('str', 'b')]))]), {}, [('rule', 'W', ['p'], ('seq', [('ref', 'p'), ('opt', ('str', 'b'))]))]),
        ('optref-or-fail', ('alt', [('opt', ('ref', 'Rb')), ('fail', 'never')]), {'Rb': ('str', 'b')}, []),
        ('choice-ref-first', ('alt', [('ref', 'Rb'), ('opt', ('str', 'a'))]), {'Rb': ('str', 'b')}, []),
    ]


# inner expressions that re-bind the name `q` (bound outside the nest) from its old value
REBINDS = [
    ('rebind-python', ('let', 'q', ('py', "q + '!'"), ('py', 'q'))),
    ('rebind-parser', ('let', 'q', ('seq', [('py', 'q'), ('str', 'a')]), ('py', 'q'))),
    ('rebind-where', ('let', 'q', ('where', ('re', '[ab]', False), ('py', 'lambda w: w != q')), ('py', 'q'))),
]


WRAPPERS = ['seq', 'group', 'opt', 'zzalt', 'leftempty', 'expect', 'mix']


# expression-tree levels one wrapper adds (a parenthesised group adds none)
LEVELS = {'seq': 1, 'group': 0, 'opt': 1, 'zzalt': 2, 'leftempty': 1, 'expect': 1}


def wrap_once(kind, e, rng):
    if kind == 'mix':
        kind = rng.choice(['seq', 'group', 'opt', 'zzalt', 'leftempty'])
    if kind == 'seq':
        return ('seq', [e])
    if kind == 'group':
        return ('alt', [e])              # rendered as a parenthesised group
    if kind == 'opt':
        return ('opt', e)
    if kind == 'zzalt':
        return ('alt', [('str', 'zz'), ('seq', [e])])
    if kind == 'leftempty':
        return ('left', e, ('str', ''))
    if kind == 'expect':
        return ('left', e, ('expect', ('str', '')))
    raise ValueError(kind)


def apply_wrappers(v, kinds):
    """Value of the wrapped expression when the inner expression yields v."""
    for k in kinds:
        if k in ('seq', 'zzalt'):
            v = [v]
    return v


def build(inner, extra_rules, extra_stmts, kinds, bound, named, where='rule'):
    name, e0 = inner
    e = e0
    for k in kinds:
        if k == 'seq':
            e = ('seq', [e])
        elif k == 'group':
            e = ('alt', [e])
        elif k == 'opt':
            e = ('opt', e)
        elif k == 'zzalt':
            e = ('alt', [('str', 'zz'), ('seq', [e])])
        elif k == 'leftempty':
            e = ('left', e, ('str', ''))
        elif k == 'expect':
            e = ('left', e, ('expect', ('str', '')))
    if bound:
        # the wrapped expression reads a bound name at the bottom
        e = ('let', 'q', ('re', '[xy]', False), e)
    stmts = [s for s in extra_stmts if s[0] in ('ignore', 'irule')]
    if where == 'class-field':
        # the deep nesting sits in a class body (its own generated function with a constructor call)
        stmts.append(('rule', 'start', None, ('apply', ('ref', 'Holder'), ('py', 'lambda h: h.v'))))
        stmts.append(('class', 'Holder', None, [('let', 'pre', ('opt', ('str', '~'))), ('field', 'v', e)]))
    elif where == 'template-body':
        stmts.append(('rule', 'start', None, ('call', 'Deep', [('str', '~')])))
        stmts.append(('rule', 'Deep', ['zz'], ('right', ('opt', ('ref', 'zz')), e)))
    else:
        stmts.append(('rule', 'start', None, e))
    for n, b in extra_rules.items():
        stmts.append(('rule', n, None, b))
    stmts.extend(s for s in extra_stmts if s[0] not in ('ignore', 'irule'))
    return dict(name=diff.unique_name('vt_c17') if named else None, extends=None, stmts=stmts)


def nesting_case(rec, iname, e0, rules, stmts, wkind, depth, named, bound, where='rule'):
    rng = rec.rng
    kinds = []
    for _ in range(depth):
        k = wkind
        if k == 'mix':
            k = rng.choice(['seq', 'group', 'opt', 'zzalt', 'leftempty'])
        kinds.append(k)
    inner_e = e0
    if bound == 'rebind':
        pass                    # e0 itself re-binds q from its old value (and nothing reads q afterwards)
    elif bound:
        inner_e = ('seq', [e0, ('py', 'q')])
    G = build((iname, inner_e), rules, stmts, kinds, bound, named, where)
    G0 = build((iname, inner_e), rules, stmts, [], bound, False, where)
    if not gen.well_formed(G):
        rec.drop()
        return
    case = dict(kind='nesting', inner=iname, wrapper=wkind, depth=depth, named=named, bound=bound, where=where,
                grammars_repr=repr([G]) if depth <= 30 else None, kinds=''.join(k[0] for k in kinds))
    d = gast.render_grammar(G, gast.Style(parens='min'))
    r = observe.compile_grammar(d)
    rec.case()
    if r[0] != 'ok':
        sig = 'nesting:grammar-error:%s' % (r[1] if r[0] != 'timeout' else 'nonterm')
        if r[0] != 'timeout' and r[1] == 'RecursionError':
            # the code generator recurses over the expression tree (about 4 Python frames per expression
            # level): the signature says how many expression levels the description nests, so that the
            # known finding (>= 200 levels under the default recursion limit) cannot hide an earlier one
            levels = sum(LEVELS[k] for k in kinds)
            sig += ':levels>=200' if levels >= 200 else ':levels<200'
            case = dict(case, expression_levels=levels)
            rec.maxi('deepest_levels_refused_with_RecursionError', levels)
        rec.violation(sig, 'Grammar() of a deeply nested description', dict(case, desc=d[:300]), 'module', r)
        return
    rec.maxi('deepest_expression_levels_compiled', sum(LEVELS[k] for k in kinds))
    g = r[1]
    r0 = observe.compile_grammar(gast.render_grammar(G0))
    g0 = r0[1] if r0[0] == 'ok' else None
    has_ignore = any(s[0] in ('ignore', 'irule') for s in stmts)
    base = ['', 'a', 'ab', 'b', 'aa', 'abb', 'zz', 'zza']
    if has_ignore:
        base += ['a ', ' a', 'a b', ' a b ']
    inputs = [('x' + t) for t in base] + ['a'] if bound else base
    bytes_mode = any(x[0] in ('byte', 'bstr', 'bistr', 'bre') for x in gast.walk(e0))
    if bytes_mode:
        inputs = [t.encode() for t in inputs]
    chain = refpeg.build_chain([G])
    for text in inputs:
        try:
            exp, model = refpeg.expected(chain, text, None, 0, True, budget=400000)
        except (refpeg.IllFormed, refpeg.ModelBudget, RecursionError):
            rec.drop()
            continue
        o = observe.observe(g, text)
        rec.case()
        if depth >= 10:
            rec.nontrivial((iname, wkind, depth, named, bound, where, text))
        if not observe.same_outcome(exp, o.outcome):
            rec.violation('nesting:%s->%s' % (observe.outcome_class(exp), observe.outcome_class(o.outcome)),
                          'reference model on the wrapped expression', dict(case, text_repr=repr(text), desc=d[:200]), exp, o.outcome)
            continue
        # direct relation to the unwrapped grammar (real vs real) on success without zz / opt effects
        if g0 is not None and not text.startswith(b'zz' if bytes_mode else 'zz') and not text.startswith(b'xzz' if bytes_mode else 'xzz'):
            o0 = observe.observe(g0, text)
            rec.count('relation_pairs')
            if o0.outcome[0] == 'value' and o.outcome[0] == 'value':
                want = apply_wrappers(o0.outcome[1] if not bound else o0.outcome[1], kinds)
                got = o.outcome[1]
                if not observe.same_outcome(want, got):
                    rec.violation('nesting:relation', 'wrapped vs unwrapped (real vs real)',
                                  dict(case, text_repr=repr(text)), observe.short(want, 200), observe.short(got, 200))
    if named:
        sys.modules.pop(G['name'], None)


def derived_case(rec, wkind, depth, variant):
    """The nest sits in a named base grammar and is used through a derived grammar that overrides the
    rule referenced at the bottom (or adds an ignore rule): at every depth the inherited nest must
    reach the derived grammar's definitions (helper functions included)."""
    rng = rec.rng
    kinds = []
    for _ in range(depth):
        k = wkind
        if k == 'mix':
            k = rng.choice(['seq', 'group', 'opt', 'zzalt', 'leftempty'])
        kinds.append(k)
    base_name, derived_name = diff.unique_name('vt_c17a'), diff.unique_name('vt_c17b')
    if variant == 'override-ref':
        inner = ('seq', [('ref', 'R'), ('opt', ('ref', 'R'))])
        base_rules = [('rule', 'R', None, ('str', 'a'))]
        derived = [('rule', 'R', None, ('alt', [('str', 'b'), ('super', 'R')]))]
    elif variant == 'override-template':
        inner = ('call', 'W', [('str', 'a')])
        base_rules = [('rule', 'W', ['p'], ('seq', [('ref', 'p'), ('opt', ('str', '!'))]))]
        derived = [('rule', 'W', ['p'], ('seq', [('str', 'b'), ('ref', 'p')]))]
    else:       # the derived grammar adds an ignore rule: literals of the inherited nest skip it
        inner = ('seq', [('str', 'a'), ('opt', ('str', 'b'))])
        base_rules = []
        derived = [('ignore', ('re', ' +', False))]
    e = inner
    for k in kinds:
        e = wrap_once(k, e, rng)
    GA = dict(name=base_name, extends=None, stmts=[('rule', 'start', None, ('ref', 'Deep')), ('rule', 'Deep', None, e)] + base_rules)
    GB = dict(name=derived_name, extends=base_name, stmts=derived)
    case = dict(kind='nesting-derived', wrapper=wkind, depth=depth, variant=variant, kinds=''.join(k[0] for k in kinds),
                grammars_repr=repr([GA, GB]) if depth <= 30 else None)
    descs = [gast.render_grammar(GA, gast.Style(parens='min')), gast.render_grammar(GB)]
    mods = []
    try:
        for d in descs:
            r = observe.compile_grammar(d)
            rec.case()
            if r[0] != 'ok':
                rec.violation('nesting-derived:grammar-error:%s' % (r[1] if r[0] != 'timeout' else 'nonterm'), 'Grammar() of a deeply nested description',
                              dict(case, desc=d[:300]), 'module', r)
                return
            mods.append(r[1])
        try:
            chain = refpeg.build_chain([GA, GB])
        except refpeg.IllFormed:
            rec.drop()
            return
        inputs = ['', 'a', 'b', 'aa', 'ab', 'ba', 'bb', 'a!', 'ba!', 'a b', ' a', 'a ', 'zz', 'zza']
        for level, g in enumerate(mods):
            for text in inputs:
                try:
                    # (an ignore rule added by a derived grammar: both documented readings are accepted, as in C13)
                    exps = [refpeg.expected(chain[:level + 1], text, None, 0, True, budget=400000, late_ignore=late)[0]
                            for late in (True, False)]
                except (refpeg.IllFormed, refpeg.ModelBudget, RecursionError):
                    rec.drop()
                    continue
                exp = exps[0]
                o = observe.observe(g, text)
                rec.case()
                if depth >= 10:
                    rec.nontrivial(('derived', variant, wkind, depth, level, text))
                rec.count('derived_level%d_calls' % level)
                if not any(observe.same_outcome(x, o.outcome) for x in exps):
                    rec.violation('nesting-derived:level%d:%s->%s' % (level, observe.outcome_class(exp), observe.outcome_class(o.outcome)),
                                  'reference model (extends chain) on the wrapped expression',
                                  dict(case, level=level, text_repr=repr(text), desc=descs[0][:200] + '||' + descs[1]), exp, o.outcome)
    finally:
        sys.modules.pop(base_name, None)
        sys.modules.pop(derived_name, None)


BOUND_VALUES = [('set', '{1, 2}'), ('list', '[1, [2]]'), ('dict', "{'k': [1]}"), ('bytearray', "bytearray(b'x')"), ('float', '1.0'),
                ('tuple-of-list', '([1], 2)'), ('none', 'None')]


def bound_value_case(rec, vname, vsrc, wkind, depth):
    """The nest reads a bound name whose value is unhashable / compares equal to a value of another
    type: (let q = <value> in nest([T, `q`, "!"])) | (let q = <equal value of another type> in nest([T, `q`])).
    Both nests have the same text, start at the same position and differ only in what q holds."""
    rng = rec.rng
    kinds = []
    for _ in range(depth):
        k = wkind
        if k == 'mix':
            k = rng.choice(['seq', 'group', 'opt', 'leftempty'])
        kinds.append(k)
    T = ('re', '[ab]', False)

    def nest(tail):
        e = ('seq', [T, ('py', "('q', q)")])
        for k in kinds:
            e = wrap_once(k, e, rng)
        return ('seq', [e] + tail)
    other = {'float': '1', 'none': '0'}.get(vname, vsrc)
    G = gast.simple_grammar({'start': ('alt', [('let', 'q', ('py', vsrc), nest([('str', '!')])),
                                               ('let', 'q', ('py', other), nest([('opt', ('str', '?'))]))])})
    case = dict(kind='nesting-bound-value', value=vname, wrapper=wkind, depth=depth, kinds=''.join(k[0] for k in kinds))
    d = gast.render_grammar(G, gast.Style(parens='min'))
    r = observe.compile_grammar(d)
    rec.case()
    if r[0] != 'ok':
        rec.violation('nesting-bound-value:grammar-error:%s' % (r[1] if r[0] != 'timeout' else 'nonterm'), 'Grammar() of a deeply nested description',
                      dict(case, desc=d[:300]), 'module', r)
        return
    g = r[1]
    chain = refpeg.build_chain([G])
    for text in ['a', 'a!', 'b?', 'b', '', 'ab', 'a?!']:
        try:
            exp, model = refpeg.expected(chain, text, None, 0, True, budget=400000)
        except (refpeg.IllFormed, refpeg.ModelBudget, RecursionError):
            rec.drop()
            continue
        o = observe.observe(g, text)
        rec.case()
        rec.count('bound_value_calls')
        if depth >= 10:
            rec.nontrivial(('bound-value', vname, wkind, depth, text))
        if not observe.same_outcome(exp, o.outcome):
            rec.violation('nesting-bound-value:%s->%s' % (observe.outcome_class(exp), observe.outcome_class(o.outcome)),
                          'reference model on the wrapped expression reading a bound name', dict(case, text_repr=repr(text), desc=d[:200]),
                          exp, o.outcome)


def class_let_case(rec, variant, wkind, depth):
    """The nest sits in a class body and reads a `let` member (or a kept field) of the class at the
    bottom -- in inline Python, as a repetition count, in a where predicate."""
    rng = rec.rng
    kinds = []
    for _ in range(depth):
        k = wkind
        if k == 'mix':
            k = rng.choice(['seq', 'group', 'opt', 'zzalt', 'leftempty'])
        kinds.append(k)
    T = ('re', '[ab]', False)
    D = ('apply', ('re', '[0-2]', False), ('py', 'int'))
    member = 'let' if variant.startswith('let') else 'field'
    if variant.endswith('read'):
        first, e = (member, 'm', T), ('seq', [T, ('py', "('m', m)")])
    elif variant.endswith('count'):
        first, e = (member, 'm', D), ('rep', ('str', 'a'), ('name', 'm'), ('name', 'm'))
    else:
        first, e = (member, 'm', T), ('where', T, ('py', 'lambda w: w != m'))
    for k in kinds:
        e = wrap_once(k, e, rng)
    G = dict(name=None, extends=None, stmts=[('rule', 'start', None, ('star', ('ref', 'Holder'))),
                                             ('class', 'Holder', None, [first, ('field', 'v', e), ('field', 'end', ('opt', ('str', ';')))])])
    case = dict(kind='nesting-class-let', variant=variant, wrapper=wkind, depth=depth, kinds=''.join(k[0] for k in kinds))
    d = gast.render_grammar(G, gast.Style(parens='min'))
    r = observe.compile_grammar(d)
    rec.case()
    if r[0] != 'ok':
        rec.violation('nesting-class-let:grammar-error:%s' % (r[1] if r[0] != 'timeout' else 'nonterm'), 'Grammar() of a deeply nested description',
                      dict(case, desc=d[:300]), 'module', r)
        return
    g = r[1]
    chain = refpeg.build_chain([G])
    texts = ['ab', 'aa', 'ba;ab', 'a', ''] if not variant.endswith('count') else ['2aa', '1a;0', '0', '2a', '1aa', '']
    for text in texts:
        try:
            exp, model = refpeg.expected(chain, text, None, 0, True, budget=400000)
        except (refpeg.IllFormed, refpeg.ModelBudget, RecursionError):
            rec.drop()
            continue
        o = observe.observe(g, text)
        rec.case()
        rec.count('class_let_calls')
        if depth >= 10:
            rec.nontrivial(('class-let', variant, wkind, depth, text))
        if not observe.same_outcome(exp, o.outcome):
            rec.violation('nesting-class-let:%s->%s' % (observe.outcome_class(exp), observe.outcome_class(o.outcome)),
                          'reference model on a nest in a class body reading a class member', dict(case, text_repr=repr(text), desc=d[:200]), exp, o.outcome)


def twin_case(rec, iname, e0, wkind, depth):
    """One grammar holds the nest AND, as arguments of a template, every sub-nest of it: the text of
    whichever sub-expression the generator moves into a helper function also occurs as an argument
    expression (which becomes a helper of its own, with the other calling convention)."""
    rng = rec.rng
    kinds = []
    for _ in range(depth):
        k = wkind
        if k == 'mix':
            k = rng.choice(['seq', 'group', 'opt', 'zzalt', 'leftempty'])
        kinds.append(k)
    subs = [e0]
    for k in kinds:
        subs.append(wrap_once(k, subs[-1], rng))
    order = rng.choice(['template-first', 'nest-first'])
    rules = [('rule', 'Deep', None, subs[-1]),
             ('rule', 'Via', None, ('alt', [('call', 'T', [x]) for x in reversed(subs)])),
             ('rule', 'T', ['p'], ('seq', [('str', '~'), ('ref', 'p')])),
             ('rule', 'R', None, ('alt', [('str', 'a'), ('str', 'b')]))]
    if order == 'template-first':
        rules = rules[1:3] + rules[:1] + rules[3:]
    G = dict(name=None, extends=None, stmts=[('rule', 'start', None, ('alt', [('ref', 'Via'), ('ref', 'Deep')]))] + rules)
    case = dict(kind='nesting-twin', inner=iname, wrapper=wkind, depth=depth, order=order, kinds=''.join(k[0] for k in kinds))
    d = gast.render_grammar(G, gast.Style(parens='min'))
    r = observe.compile_grammar(d)
    rec.case()
    if r[0] != 'ok':
        rec.violation('nesting-twin:grammar-error:%s' % (r[1] if r[0] != 'timeout' else 'nonterm'), 'Grammar() of a deeply nested description',
                      dict(case, desc=d[:300]), 'module', r)
        return
    g = r[1]
    try:
        chain = refpeg.build_chain([G])
    except refpeg.IllFormed:
        rec.drop()
        return
    for entry in (None, 'Deep', 'Via'):
        for text in ['', 'a', 'b', 'a,b', 'a,', 'ab', '~a', '~b', '~a,b', '~', 'zz', '~zz', 'aa']:
            try:
                exp, model = refpeg.expected(chain, text, entry, 0, True, budget=400000)
            except (refpeg.IllFormed, refpeg.ModelBudget, RecursionError):
                rec.drop()
                continue
            o = observe.observe(g, text, entry)
            rec.case()
            rec.count('twin_calls')
            if depth >= 10:
                rec.nontrivial(('twin', iname, wkind, depth, entry, text))
            if not observe.same_outcome(exp, o.outcome):
                rec.violation('nesting-twin:%s->%s' % (observe.outcome_class(exp), observe.outcome_class(o.outcome)),
                              'reference model: the nest and a template instantiated with each of its sub-nests, in one grammar',
                              dict(case, entry=entry, text_repr=repr(text), desc=d[:200]), exp, o.outcome)


# -- deep inputs ------------------------------------------------------------------

DEEP = {
    'plain': ("start = [\"(\", start?, \")\"]", lambda n: '(' * n + ')' * n, 'list3'),
    'template': ("start = P(\"(\")\nP(o) = [o, P(o)?, \")\"]", lambda n: '(' * n + ')' * n, 'list3'),
    'class': ("start = N\nclass N { o: \"(\"; k: N?; c: \")\" }", lambda n: '(' * n + ')' * n, 'class'),
    'ignore': ("ignore / +/\nstart = [\"(\", start?, \")\"]", lambda n: '( ' * n + ') ' * n, 'list3'),
    'star': ("start = \"(\" >> start* << \")\"", lambda n: '(' * n + ')' * n, 'star'),
    # several pending rule calls per character of input: chains of rules, an expression handed on as
    # argument at every level, a class reached through two rules
    'chain5': ("start = A\nA = B\nB = C\nC = D\nD = [\"(\", start?, \")\"]", lambda n: '(' * n + ')' * n, 'list3'),
    'template-expr-arg': ("start = P(\"(\" | \"[\")\nP(o) = Q(o)\nQ(o) = [o, P(\"(\" | \"{\")?, \")\"]", lambda n: '(' * n + ')' * n, 'list3'),
    # the argument itself nests one level per level of input (closure inside closure); matching is
    # quadratic here, so the nesting is capped
    'template-growing-arg': ("start = P(\"(\" | \"[\")\nP(o) = Q(o)\nQ(o) = [o, P(o | \"{\")?, \")\"]", lambda n: '(' * n + ')' * n, 'list3', 1500),
    'class-via-rules': ("start = R1\nR1 = R2\nR2 = N\nclass N { o: \"(\"; k: R1?; c: \")\" }", lambda n: '(' * n + ')' * n, 'class'),
    'named-chain': ("grammar vt_c17_deepchain\nstart = A\nA = B\nB = [\"(\", start?, \")\"]\nignore /_+/", lambda n: '(' * n + ')' * n, 'list3'),
}


def measure_depth(v, shape):
    """Iterative nesting depth of a deep result."""
    d = 0
    while True:
        if shape == 'list3':
            if not (isinstance(v, list) and len(v) == 3 and v[0] == '(' and v[2] == ')'):
                return d, 'malformed level %d: %s' % (d, repr(type(v)))
            d += 1
            v = v[1]
            if v is None:
                return d, None
        elif shape == 'class':
            if not (hasattr(v, 'o') and v.o == '(' and v.c == ')'):
                return d, 'malformed level %d' % d
            d += 1
            v = v.k
            if v is None:
                return d, None
        elif shape == 'star':
            if not isinstance(v, list):
                return d, 'malformed level %d' % d
            d += 1
            if not v:
                return d, None
            if len(v) != 1:
                return d, 'level %d has %d children' % (d, len(v))
            v = v[0]


def dismantle(v):
    """Free a deep structure iteratively (deallocation must not be what recurses)."""
    stack = [v]
    while stack:
        x = stack.pop()
        if isinstance(x, list):
            stack.extend(x)
            del x[:]
        elif hasattr(x, '__dict__') and hasattr(type(x), '_fields'):
            for f in type(x)._fields:
                stack.append(getattr(x, f, None))
                try:
                    setattr(x, f, None)
                except Exception:
                    pass


def deep_case(rec, name, n):
    desc, mk, shape = DEEP[name][:3]
    if len(DEEP[name]) > 3:
        n = min(n, DEEP[name][3])
    r = observe.compile_grammar(desc)
    if r[0] != 'ok':
        rec.violation('deep:grammar-error', 'Grammar()', dict(kind='deep', grammar=name), 'module', r)
        return
    g = r[1]
    probe = probes.DepthProbe(g)
    results = {}
    for size in (n // 10, n):
        text = mk(size)
        probe.max_depth = 0
        base_depth = len(_frames())
        old = sys.getrecursionlimit()
        probe.start()
        sys.setrecursionlimit(base_depth + 100)
        try:
            rec.case()
            try:
                v = g.parse(text)
                err = None
            except RecursionError as e:
                v, err = None, 'RecursionError'
            except Exception as e:
                v, err = None, '%s: %s' % (type(e).__name__, str(e)[:100])
        finally:
            sys.setrecursionlimit(old)
            probe.stop()
        rec.count('depth_probe_events', probe.events)
        case = dict(kind='deep', grammar=name, nesting=size, desc=desc)
        if err is not None:
            rec.violation('deep:%s' % err.split(':')[0], 'deep input under recursion limit (current depth + 100)', case,
                          'parses; depth limited by memory only', err)
            continue
        rec.count('deep_inputs_parsed')
        rec.maxi('deepest_input_nesting', size)
        got, why = measure_depth(v, shape)
        if why is not None or got != size:
            rec.violation('deep:result', 'iterative comparison of the deep result', case, size, (got, why))
        results[size] = probe.max_depth - base_depth
        rec.maxi('frame_high_water_above_caller', probe.max_depth - base_depth)
        rec.nontrivial(('deep', name, size))
        dismantle(v)
        del v
    if len(results) == 2:
        small, big = results[n // 10], results[n]
        if big > small + 5:
            rec.violation('deep:frame-depth-grows', 'frame-depth high-water probe', dict(kind='deep', grammar=name, desc=desc),
                          'frame depth independent of input nesting (%d at nesting %d)' % (small, n // 10),
                          '%d at nesting %d' % (big, n))
    rec.sample(dict(deep=name, description=desc, nesting=n, frame_depth=results), limit=5)
    sys.modules.pop('vt_c17_deepchain', None)


def _frames():
    out = []
    f = sys._getframe()
    while f is not None:
        out.append(f)
        f = f.f_back
    return out


def run_shard(rec):
    quick = rec.tier == 'quick'
    rec.deadline = time.time() + (300 if quick else 900)
    depths = DEPTHS_QUICK if quick else DEPTHS_THOROUGH
    idx = 0
    for iname, e0, rules, stmts in inners():
        for wkind in WRAPPERS:
            for depth in depths:
                for named in (False, True):
                    idx += 1
                    if not rec.mine(idx):
                        continue
                    if quick and named and depth not in (17, 18, 19, 20, 21, 22, 40, 60, 120):
                        continue
                    if rec.out_of_time():
                        rec.count('cut_by_time')
                        break
                    nesting_case(rec, iname, e0, rules, stmts, wkind, depth, named, bound=False)
    # the same nesting inside a class body and inside a template body
    for where in ('class-field', 'template-body'):
        for iname, e0, rules, stmts in inners():
            if iname in ('regex', 'choice'):
                continue
            for wkind in ('seq', 'opt', 'mix'):
                for depth in depths:
                    idx += 1
                    if not rec.mine(idx):
                        continue
                    if quick and depth not in (5, 14, 15, 16, 17, 18, 19, 20, 21, 22, 36, 40, 60, 120):
                        continue
                    if rec.out_of_time():
                        rec.count('cut_by_time')
                        break
                    nesting_case(rec, iname, e0, rules, stmts, wkind, depth, (idx % 3 == 0), False, where)
    # bound name read at the bottom of the nesting
    for wkind in ('seq', 'opt', 'mix'):
        for depth in depths:
            idx += 1
            if rec.mine(idx) and not rec.out_of_time():
                nesting_case(rec, 'bound-name', ('str', 'a'), {}, [], wkind, depth, False, bound=True)
    # a let INSIDE the nest re-binds the name bound outside it and works the new value out from the old one
    for rname, e0 in REBINDS:
        for wkind in ('seq', 'opt', 'mix'):
            for depth in depths:
                idx += 1
                if rec.mine(idx) and not rec.out_of_time():
                    nesting_case(rec, rname, e0, {}, [], wkind, depth, False, bound='rebind')
    # nests in class bodies reading a let member / a field of the class
    for variant in ('let-read', 'let-count', 'let-where', 'field-read', 'field-count'):
        for wkind in ('seq', 'opt', 'mix'):
            for depth in ((1, 10, 14, 15, 16, 17, 18, 19, 20, 25, 35) if quick else list(range(1, 45))):
                idx += 1
                if rec.mine(idx) and not rec.out_of_time():
                    class_let_case(rec, variant, wkind, depth)
    # bound names holding unhashable values / values equal to a value of another type
    for vname, vsrc in BOUND_VALUES:
        for wkind in ('seq', 'opt', 'mix'):
            for depth in ((3, 14, 16, 17, 18, 19, 20, 22, 25, 40) if quick else list(range(1, 45))):
                idx += 1
                if rec.mine(idx) and not rec.out_of_time():
                    bound_value_case(rec, vname, vsrc, wkind, depth)
    # the nest and all of its sub-nests as template arguments, in one grammar
    TWIN_INNERS = [('ref', ('ref', 'R')), ('choice', ('alt', [('str', 'a'), ('str', 'b')])),
                   ('sep', ('sep', ('ref', 'R'), ('str', ','), {'allow_trailer': True, '_op': '/?'}))]
    for iname, e0 in TWIN_INNERS:
        for wkind in ('seq', 'opt', 'zzalt', 'mix'):
            for depth in (list(range(12, 25)) if quick else list(range(2, 40))):
                idx += 1
                if rec.mine(idx) and not rec.out_of_time():
                    twin_case(rec, iname, e0, wkind, depth)
    # the nest inherited by a derived grammar
    for variant in ('override-ref', 'override-template', 'adds-ignore'):
        for wkind in ('seq', 'zzalt', 'opt', 'mix'):
            for depth in ((5, 12, 16, 17, 18, 19, 20, 22, 30, 40, 60) if quick else list(range(1, 64)) + [80, 99]):
                idx += 1
                if rec.mine(idx) and not rec.out_of_time():
                    derived_case(rec, wkind, depth, variant)
    names = sorted(DEEP)
    n = 10000 if quick else 100000
    for i, name in enumerate(names):
        if rec.shard == i % 16:
            deep_case(rec, name, n)


def replay(rec, rep):
    case = rep['case']
    if case.get('kind') == 'nesting-class-let':
        return class_let_case(rec, case['variant'], case['wrapper'], case['depth'])
    if case.get('kind') == 'nesting-bound-value':
        return bound_value_case(rec, case['value'], dict(BOUND_VALUES)[case['value']], case['wrapper'], case['depth'])
    if case.get('kind') == 'nesting-twin':
        inner = {'ref': ('ref', 'R'), 'choice': ('alt', [('str', 'a'), ('str', 'b')]),
                 'sep': ('sep', ('ref', 'R'), ('str', ','), {'allow_trailer': True, '_op': '/?'})}[case['inner']]
        return twin_case(rec, case['inner'], inner, case['wrapper'], case['depth'])
    if case.get('kind') == 'nesting-derived':
        return derived_case(rec, case['wrapper'], case['depth'], case['variant'])
    if case.get('kind') == 'deep':
        return deep_case(rec, case['grammar'], case.get('nesting', 10000) * (1 if case.get('nesting') else 1))
    for iname, e0, rules, stmts in inners():
        if iname == case.get('inner'):
            return nesting_case(rec, iname, e0, rules, stmts, case['wrapper'], case['depth'], case.get('named', False), False,
                                case.get('where', 'rule'))
    if case.get('inner') in dict(REBINDS):
        return nesting_case(rec, case['inner'], dict(REBINDS)[case['inner']], {}, [], case['wrapper'], case['depth'], False, 'rebind')
    if case.get('inner') == 'bound-name':
        nesting_case(rec, 'bound-name', ('str', 'a'), {}, [], case['wrapper'], case['depth'], False, True)
