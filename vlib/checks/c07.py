"""C07 -- packrat guarantee: a rule body is evaluated at most once per position.

Monitor: sys.monitoring PY_START on the code objects of all parameterless
`_try_<rule>` functions of the module under test, position read from the
starting frame, parse-call id from a wrapper bound over the module's `_run`.
Second, probe-independent channel: fresh sentinel objects made by inline Python
in a rule body -- identity of the values delivered to several references, and
the number of sentinels created."""
import ast
import os
import time

from .. import gast, gen, diff, work, observe, probes, refpeg, corpus

ID = 'C07'


def plan(tier, seed):
    return dict(
        shards=16,
        rule='(i) grammar families whose un-memoised evaluation is exponential (3-way and k-way common '
             'prefixes, lookahead stacks) on nesting depth 1..40 (quick) / 1..150 (thorough); (ii) seeded '
             'random multi-rule grammars with every rule referenced from several places x all inputs up to '
             'length 5; (iii) the metaparser compiled from grammar.txt parsing every repository '
             'description, and the Excel example grammar on the strings of its tests; (iv) sentinel '
             'grammars (inline Python creating a fresh object per body evaluation).  One evaluation = '
             'one monitored parse call.  Non-trivial = parse calls in which some rule was referenced more '
             'than once at one position (model memo hits >= 1, or family/realistic workloads by '
             'construction with >= 2 rule-start events).',
        assumptions=['PY_START of a generator function fires once per body evaluation',
                     'the module looks up _run by global name (zero wrapped calls => inconclusive)'],
    )


def inconclusive(counters, evaluations, tier):
    out = []
    if counters.get('rule_start_events', 0) == 0:
        out.append('probe saw no rule-body start event')
    if counters.get('run_calls_wrapped', 0) == 0:
        out.append('_run wrapper never called (parse call ids unavailable)')
    return out


def check_calls(rec, probe, nrules, text_len, case, what):
    """Evaluate the per-call tables of the probe.  Returns number of calls."""
    calls = probe.take()
    for cid, table in calls.items():
        starts = sum(table.values())
        rec.count('rule_start_events', starts)
        rec.count('distinct_rule_pos_keys', len(table))
        rec.count('parse_calls_monitored')
        if table:
            rec.maxi('max_starts_per_key', max(table.values()))
        dups = [(k, n) for k, n in table.items() if n > 1]
        if dups:
            rec.violation('rule-evaluated-twice', 'rule-body start probe', case,
                          'each (rule, position) evaluated at most once per parse call',
                          'e.g. %r evaluated %d times; %d keys duplicated; %d starts' % (
                              dups[0][0], dups[0][1], len(dups), starts), what=what)
        bound = nrules * (text_len + 1)
        if starts > bound:
            rec.violation('too-many-evaluations', 'rule-body start probe', case,
                          '<= rules x (len+1) = %d' % bound, starts, what=what)
    if probe.orphan_events:
        rec.count('orphan_events', probe.orphan_events)
        probe.orphan_events = 0
    return len(calls)


FAMILIES = {
    'three-way': ('E', {
        'start': ('ref', 'E'),
        'E': ('alt', [('seq', [('ref', 'T'), ('str', '+'), ('ref', 'E')]),
                      ('seq', [('ref', 'T'), ('str', '-'), ('ref', 'E')]), ('ref', 'T')]),
        'T': ('alt', [('seq', [('str', '('), ('ref', 'E'), ('str', ')')]), ('str', 'x')])}),
    'five-way': ('E', {
        'start': ('ref', 'E'),
        'E': ('alt', [('seq', [('ref', 'T'), ('str', c)]) for c in 'abcd'] + [('ref', 'T')]),
        'T': ('alt', [('seq', [('str', '('), ('ref', 'E'), ('str', ')')]), ('str', 'x')])}),
    'lookahead': ('S', {
        'start': ('ref', 'S'),
        # values of the lookaheads are discarded: keeping them would make the *result* a DAG whose
        # unfolding is exponential (a cost of the result, not of rule evaluation)
        'S': ('right', ('expect', ('ref', 'A')),
              ('right', ('expectnot', ('seq', [('ref', 'A'), ('str', '!')])), ('ref', 'A'))),
        'A': ('alt', [('seq', [('str', '('), ('ref', 'S'), ('str', ')')]), ('str', 'x')])}),
    # a rule referred to with an empty argument list, A(), next to plain references to it
    'empty-call': ('S', {
        'start': ('ref', 'S'),
        'S': ('right', ('expect', ('call', 'A', [])), ('alt', [('seq', [('call', 'A', []), ('str', '!')]), ('ref', 'A')])),
        'A': ('alt', [('seq', [('str', '('), ('ref', 'S'), ('str', ')')]), ('str', 'x')])}),
    # ... and the same through a parameter: W(p) writes p() and p, W is handed the rule A
    'empty-call-through-parameter': ('S', {
        'start': ('ref', 'S'),
        'S': ('right', ('expect', ('ref', 'A')), ('call', 'W', [('ref', 'A')])),
        'W': None,
        'A': ('alt', [('seq', [('str', '('), ('ref', 'S'), ('str', ')')]), ('str', 'x')])}),
    'opt-star': ('L', {
        'start': ('ref', 'L'),
        'L': ('alt', [('seq', [('ref', 'I'), ('str', ';')]), ('seq', [('ref', 'I'), ('str', ',')]), ('ref', 'I')]),
        'I': ('alt', [('seq', [('str', '['), ('star', ('ref', 'L')), ('str', ']')]), ('str', 'x')])}),
}


def family_input(name, n):
    if name == 'opt-star':
        return '[' * n + 'x' + ']' * n
    return '(' * n + 'x' + ')' * n


def run_family(rec, name, depths):
    entry, rules = FAMILIES[name]
    G = gast.simple_grammar({k: v for k, v in rules.items() if v is not None})
    if name == 'empty-call-through-parameter':
        G['stmts'].append(('rule', 'W', ['p'], ('right', ('expect', ('call', 'p', [])),
                                                ('alt', [('seq', [('call', 'p', []), ('str', '!')]), ('ref', 'p')]))))
    rules = {k: v for k, v in rules.items() if v is not None}
    b = diff.build(rec, G)
    if b is None:
        return
    probe = probes.RuleEvalProbe(b.g)
    probe.start()
    try:
        for n in depths:
            t = family_input(name, n)
            r = diff.compare(rec, b, t, None, monitors=('value',), extra_case=dict(family=name, depth=n))
            if r is None:
                continue
            rec.nontrivial((name, n))
            check_calls(rec, probe, len(rules), len(t),
                        diff.case_dict(b, t, None, 0, True, family=name, depth=n, probe=True), 'family')
            # a broken input too (unbalanced): failures must be memoised as well
            t2 = t[:-1] + '!'
            diff.compare(rec, b, t2, None, monitors=('value',))
            rec.nontrivial((name, n, 'bad'))
            check_calls(rec, probe, len(rules), len(t2),
                        diff.case_dict(b, t2, None, 0, True, family=name, depth=n, probe=True), 'family')
    finally:
        rec.count('run_calls_wrapped', probe.run_wrapped)
        probe.stop()
    rec.sample(dict(family=name, description=b.descs[-1], depths=[depths[0], depths[-1]]), limit=4)
    b.cleanup()


SENTINEL_PY = '''import itertools
_made = []
class Sent(object):
    def __init__(self, tag):
        self.tag = tag
        _made.append(self)
def mk(tag):
    return Sent(tag)
'''


def sentinel_grammar():
    A = ('seq', [('opt', ('str', 'x')), ('py', "mk('A')")])
    B = ('seq', [('ref', 'A'), ('py', "mk('B')")])
    stmts = [
        ('pysection', SENTINEL_PY),
        ('rule', 'start', None, ('seq', [
            ('expect', ('ref', 'A')), ('expect', ('ref', 'B')),
            ('alt', [('seq', [('ref', 'B'), ('str', '!')]), ('seq', [('ref', 'A'), ('str', '?')]), ('ref', 'B')]),
            ('star', ('seq', [('str', '!'), ('ref', 'B')]))])),
        ('rule', 'A', None, A),
        ('rule', 'B', None, B),
    ]
    return dict(name=None, extends=None, stmts=stmts)


def run_offsets(rec):
    """Parses started at pos > 0, through every rule, with look-behind (Backtrack) that crosses the
    starting position: memo entries are per (rule, absolute position), whatever the start offset."""
    rules = {
        'start': ('seq', [('backtrack', 1), ('ref', 'Item'), ('star', ('ref', 'Item'))]),
        'Two': ('seq', [('backtrack', 2), ('ref', 'Item'), ('ref', 'Pair'), ('star', ('ref', 'Item'))]),
        'Alt': ('alt', [('seq', [('ref', 'Item'), ('backtrack', 2), ('ref', 'Pair'), ('str', '!')]),
                        ('seq', [('ref', 'Item'), ('backtrack', 2), ('ref', 'Pair'), ('star', ('ref', 'Item'))])]),
        'Look': ('seq', [('expect', ('seq', [('backtrack', 1), ('ref', 'Pair')])), ('star', ('ref', 'Item')), ('opt', ('ref', 'Pair'))]),
        'Pair': ('seq', [('ref', 'Item'), ('ref', 'Item')]),
        'Item': ('re', '[ab]', False)}
    G = gast.simple_grammar(rules)
    b = diff.build(rec, G)
    if b is None:
        return
    probe = probes.RuleEvalProbe(b.g)
    probe.start()
    try:
        for t in work.inputs_for('ab', 5):
            for entry in (None, 'Two', 'Alt', 'Look'):
                for pos in range(0, len(t) + 1):
                    r = diff.compare(rec, b, t, entry, pos, True, monitors=('value',), extra_case=dict(family='offsets'))
                    if r is None:
                        continue
                    rec.count('offset_parses')
                    if pos > 0:
                        rec.nontrivial(('offsets', entry, t, pos))
                    check_calls(rec, probe, len(rules), len(t), diff.case_dict(b, t, entry, pos, True, family='offsets', probe=True), 'offsets')
    finally:
        rec.count('run_calls_wrapped', probe.run_wrapped)
        probe.stop()
    b.cleanup()


IGNORED_PY = '''log = []
def note(tag):
    def f(v):
        log.append((tag, v))
        return v
    return f
'''


def run_ignored_rules(rec):
    """Named ignore rules are rules: their bodies (inline Python included) run at most once per
    position, however many tokens end in front of the same ignorable text and however the skipper
    walks a run.  Every ignorable character of an input is distinct, so the matched text names the
    position.  Also the look-behind idiom of the README (Backtrack(n) >> ignored rule)."""
    descs = {
        'unnamed': '```\n%s```\nstart = (Pair | Word)*\nPair = [Word, "=", Word]\nWord = /[a-z]+/\n'
                   'ignore Dig = /[0-9]/ |> `note("Dig")`\nignore Sym = "#" >> /[A-Z]/ |> `note("Sym")`\n' % IGNORED_PY,
        'single': '```\n%s```\nstart = (Pair | Word)*\nPair = [Word, "=", Word]\nWord = /[a-z]+/\n'
                  'ignore Dig = /[0-9]/ |> `note("Dig")`\n' % IGNORED_PY,
        'lookbehind': '```\n%s```\nstart = Stmt*\nStmt = [Word, Doc?]\nDoc = Backtrack(1) >> Dig\nWord = /[a-z]+/\n'
                      'ignore Dig = /[0-9]/ |> `note("Dig")`\n' % IGNORED_PY,
    }
    descs['named'] = 'grammar vt_c07_ign\n' + descs['unnamed']
    inputs = ['a1b', 'a12b', 'a 1', 'ab=cd', 'a1=2b', 'a12=34b5', 'a1=2b3c4=5d6', '0a', '01a23', 'a#Ab', 'a1#A2#B3b', 'a=1#Ab2', 'a1', 'a12',
              'a123456', 'a1b2c3d4e5', 'a=b=c', 'a1=b2=c3', '#A#Ba', 'x9=8y7z']
    import sys
    for tag, d in sorted(descs.items()):
        r = observe.compile_grammar(d)
        if r[0] != 'ok':
            rec.violation('ignored-rule:grammar-error', 'Grammar()', dict(kind='ignored', tag=tag, descs=[d]), 'module', r)
            continue
        g = r[1]
        for t in inputs:
            del g.log[:]
            o = observe.observe(g, t)
            rec.case()
            rec.nontrivial(('ignored', tag, t))
            seen = {}
            for e in g.log:
                seen[e] = seen.get(e, 0) + 1
            rec.count('ignored_rule_side_effects', len(g.log))
            twice = sorted(k for k, n in seen.items() if n > 1)
            if twice:
                rec.violation('ignored-rule-evaluated-twice', 'side effects of inline Python in an ignored rule, keyed by the matched (unique) character',
                              dict(kind='ignored', tag=tag, descs=[d], text_repr=repr(t)), 'each (rule, character) at most once',
                              [(k, seen[k]) for k in twice][:6])
        sys.modules.pop('vt_c07_ign', None)


def run_sentinels(rec):
    G = sentinel_grammar()
    if not gen.well_formed(G):
        rec.note('sentinel grammar ill-formed')
        return
    b = diff.build(rec, G)
    if b is None:
        return
    probe = probes.RuleEvalProbe(b.g)
    probe.start()
    try:
        for t in work.inputs_for('x!?', 5):
            made = b.g._made
            del made[:]
            o = observe.observe(b.g, t)
            rec.case()
            rec.nontrivial(('sentinel', t))
            calls = probe.take()
            starts = {}
            for table in calls.values():
                for (rule, pos), n in table.items():
                    starts[rule] = starts.get(rule, 0) + n
                    if n > 1:
                        rec.violation('rule-evaluated-twice', 'rule-body start probe',
                                      diff.case_dict(b, t, None, 0, True, sentinel=True),
                                      'at most once', (rule, pos, n))
                rec.count('rule_start_events', sum(table.values()))
                rec.count('distinct_rule_pos_keys', len(table))
                rec.count('parse_calls_monitored')
            # channel 2a: number of side effects == number of body evaluations the probe saw
            na = sum(1 for s in made if s.tag == 'A')
            nb = sum(1 for s in made if s.tag == 'B')
            rec.count('sentinels_created', len(made))
            if calls and (na != starts.get('A', 0) or nb != starts.get('B', 0)):
                rec.violation('side-effect-count', 'sentinel counter vs probe',
                              diff.case_dict(b, t, None, 0, True, sentinel=True),
                              ('probe starts', starts), ('created', {'A': na, 'B': nb}))
            # channel 2b (probe independent): at most one sentinel per (rule, position);
            # positions are bounded by len+1
            if na > len(t) + 1 or nb > len(t) + 1:
                rec.violation('side-effect-bound', 'sentinel counter', diff.case_dict(b, t, None, 0, True, sentinel=True),
                              '<= len+1 per rule', {'A': na, 'B': nb})
            # channel 2c: identity of the values delivered to several references at position 0
            if o.outcome[0] in ('value', 'partial'):
                v = o.value
                try:
                    a0 = v[0][1]
                    b0 = v[1]
                    third = v[2]
                    ok = b0[0][1] is a0
                    # the list-valued rule A itself: the lookahead and the reference inside B receive the
                    # very same list object (not an equal copy)
                    ok = ok and (v[0] is b0[0])
                    if isinstance(third, list) and len(third) == 2 and isinstance(third[1], b.g.Sent):
                        ok = ok and third[0][1] is a0 and third[1] is b0[1] and third[0] is v[0] and third is b0
                    rec.count('identity_checks')
                    if not ok:
                        rec.violation('memo-identity', 'sentinel identity',
                                      diff.case_dict(b, t, None, 0, True, sentinel=True),
                                      'the same object for every reference to a rule at one position',
                                      'distinct objects')
                except (IndexError, TypeError):
                    rec.count('identity_shape_unexpected')
    finally:
        rec.count('run_calls_wrapped', probe.run_wrapped)
        probe.stop()
    rec.sample(dict(sentinel=True, description=b.descs[-1]), limit=4)
    b.cleanup()


REENTRANT = r'''
start = A | B | C
A = [Head, Mid, "!"]
B = [Head, Mid, "?"]
C = [Head, Mid, Mid?]
Head = /h+/
Mid = /\[[a-z]*\]/ |> `lambda s: Inner.parse(s[1:-1])`
Inner = Letter* |> `lambda v: ''.join(v).upper()`
Letter = /[a-z]/
'''


def run_reentrant(rec):
    """Inline Python that re-enters the parser in the middle of a parse: the outer call's memo must
    survive the nested call (rules completed before it are not evaluated again afterwards)."""
    r = observe.compile_grammar(REENTRANT)
    if r[0] != 'ok':
        rec.violation('reentrant-grammar-error', 'Grammar()', dict(kind='reentrant'), 'module', r)
        return
    g = r[1]
    probe = probes.RuleEvalProbe(g)
    nrules = len(probe.codes)
    probe.start()
    try:
        for t in ['h[]', 'hh[ab]', 'hh[ab]?', 'h[a]!', 'hhh[abc][de]', 'h[a][b]?', 'h[', 'hh[ab]x', '[a]']:
            o = observe.observe(g, t)
            rec.case()
            rec.nontrivial(('reentrant', t))
            rec.count('reentrant_parses')
            check_calls(rec, probe, nrules, len(t), dict(kind='reentrant', text_repr=repr(t), desc=REENTRANT), 'reentrant')
    finally:
        rec.count('run_calls_wrapped', probe.run_wrapped)
        probe.stop()


def run_random(rec, n, maxlen):
    for i in range(n):
        if rec.out_of_time():
            rec.count('cut_by_time')
            break
        rg = gen.RandomGrammar(rec.rng, nrules=rec.rng.randint(3, 5), maxdepth=rec.rng.randint(2, 4))
        G = rg.grammar()
        if not gen.well_formed(G):
            rec.drop()
            continue
        b = diff.build(rec, G)
        if b is None:
            continue
        nrules = sum(1 for s in G['stmts'] if s[0] == 'rule')
        entries = work.rule_entries(G)
        probe = probes.RuleEvalProbe(b.g)
        probe.start()
        try:
            for t in work.inputs_for('abA', maxlen):
                for entry in entries[:3]:
                    r = diff.compare(rec, b, t, entry, monitors=('value',))
                    if r is None:
                        continue
                    exp, o, model = r
                    if model.memo_hits:
                        rec.nontrivial((b.descs[-1], t, entry))
                        rec.count('model_memo_hits', model.memo_hits)
                    check_calls(rec, probe, nrules, len(t),
                                diff.case_dict(b, t, entry, 0, True, probe=True), 'random')
        finally:
            rec.count('run_calls_wrapped', probe.run_wrapped)
            probe.stop()
        rec.sample(dict(random=True, description=b.descs[-1]), limit=5)
        b.cleanup()


def run_metaparser(rec, quick):
    r = observe.compile_grammar(corpus.metagrammar_text())
    if r[0] != 'ok':
        rec.violation('metagrammar-compile', 'Grammar(grammar.txt)', dict(kind='meta'), 'module', r)
        return
    g = r[1]
    probe = probes.RuleEvalProbe(g)
    nrules = len(probe.codes)
    probe.start()
    try:
        for origin, d in corpus.repository_descriptions():
            for t in [d] + corpus.corruptions(d, rec.rng, 1 if quick else 6):
                observe.observe(g, t)
                rec.case()
                rec.nontrivial(('meta', t))
                check_calls(rec, probe, nrules, len(t),
                            dict(kind='meta-probe', origin=origin, text_repr=repr(t)), 'metaparser')
    finally:
        rec.count('run_calls_wrapped', probe.run_wrapped)
        probe.stop()


def run_excel(rec):
    import importlib
    try:
        sys_path_repo = observe.REPO
        import sys
        if sys_path_repo not in sys.path:
            sys.path.insert(0, sys_path_repo)
        spec = importlib.util.spec_from_file_location('vt_excel_example', os.path.join(observe.REPO, 'examples', 'excel.py'))
        mod = importlib.util.module_from_spec(spec)
        observe.load_sourcer()
        spec.loader.exec_module(mod)
    except Exception as e:
        rec.note('excel example not loadable: %s' % e)
        return
    g = None
    for v in vars(mod).values():
        if hasattr(v, 'parse') and hasattr(v, '_run') and hasattr(v, 'ParsedObject'):
            g = v
            break
    if g is None:
        rec.note('excel grammar module not found')
        return
    texts = []
    try:
        with open(os.path.join(observe.REPO, 'tests', 'test_excel.py')) as f:
            tree = ast.parse(f.read())
        for node in ast.walk(tree):
            if isinstance(node, ast.Constant) and isinstance(node.value, str) and 0 < len(node.value) < 200:
                texts.append(node.value)
    except Exception:
        pass
    probe = probes.RuleEvalProbe(g)
    nrules = len(probe.codes)
    probe.start()
    try:
        for t in sorted(set(texts)):
            for cand in (t, '=' + t):
                observe.observe(g, cand)
                rec.case()
                rec.nontrivial(('excel', cand))
                check_calls(rec, probe, nrules, len(cand), dict(kind='excel-probe', text_repr=repr(cand)), 'excel')
    finally:
        rec.count('run_calls_wrapped', probe.run_wrapped)
        probe.stop()


LARGE = {
    # the first alternative reads everything and fails at the very end; the second one re-reads from 0
    'records-two-endings': ('start = [Header, Record*, "end"] | [Header, Record*, "stop"]\nHeader = "h"\n'
                            'Record = [Key, "=", Val, ";"]\nKey = /[a-z]/\nVal = /[0-9]/',
                            lambda n: 'h' + 'a=1;' * n + 'stop', 5),
    # a lookahead over the whole input, then the real thing
    'lookahead-whole-input': ('start = Expect([Item*, "!"]) >> Item* << "!"\nItem = Word << ","\nWord = /[a-z]+/',
                              lambda n: 'ab,' * n + '!', 3),
    # a class per line, every line tried twice by an enclosing choice
    'lines-classes': ('start = (Line << "\\n")* << End\nclass Line { k: Key ; v: ("=" >> Val) | (":" >> Val) }\n'
                      'Key = /[a-z]+/\nVal = [Num, "."] | [Num, "!"] | Num\nNum = /[0-9]+/\nEnd = "."',
                      lambda n: 'k:12\n' * n + '.', 6),
}


def run_large(rec, quick, only=None):
    """Inputs long enough for 10^5 .. 10^6 (rule, position) keys in ONE parse call, with a return to the
    beginning after everything has been read: the guarantee has no size limit."""
    n = 100000 if quick else 400000
    for name, (desc, mk_input, nrules) in sorted(LARGE.items()):
        if only is not None and name != only:
            continue
        r = observe.compile_grammar(desc)
        if r[0] != 'ok':
            rec.violation('large:grammar-error', 'Grammar()', dict(kind='large', grammar=name), 'module', r)
            continue
        g = r[1]
        text = mk_input(n)
        probe = probes.RuleEvalProbe(g)
        probe.start()
        # the budget of the non-termination check is a constant meant for small cases; a parse that must
        # visit every position of a long input legitimately takes rules x length steps (false alarm of the
        # first thorough run: 4e5 lines needed more than 5e6 function starts)
        old_budget = observe.STEP_BUDGET
        observe.STEP_BUDGET = max(old_budget, 40 * nrules * (len(text) + 1))
        try:
            o = observe.observe(g, text)
            rec.case()
            rec.nontrivial(('large', name, n))
            case = dict(kind='large', grammar=name, n=n, desc=desc, probe=True)
            if o.outcome[0] != 'value':
                rec.violation('large:outcome:%s' % observe.outcome_class(o.outcome), 'long input', case, 'value', o.outcome[:2])
            before = rec.counters.get('distinct_rule_pos_keys', 0)
            check_calls(rec, probe, nrules, len(text), case, 'large')
            rec.maxi('largest_memo_keys_in_one_call', rec.counters.get('distinct_rule_pos_keys', 0) - before)
        finally:
            observe.STEP_BUDGET = old_budget
            probe.stop()
        del o


def run_shard(rec):
    quick = rec.tier == 'quick'
    rec.deadline = time.time() + (300 if quick else 600)
    for i, lname in enumerate(sorted(LARGE)):
        if rec.shard == (5 + 3 * i) % rec.nshards:
            run_large(rec, quick, lname)
    maxd = 60 if quick else 200
    names = sorted(FAMILIES)
    idx = 0
    for name in names:
        depths = list(range(1, maxd + 1))
        for chunk in range(4):
            idx += 1
            if rec.mine(idx):
                run_family(rec, name, depths[chunk::4])
    idx += 1
    if rec.mine(idx):
        run_sentinels(rec)
    idx += 1
    if rec.mine(idx):
        run_reentrant(rec)
    idx += 1
    if rec.mine(idx):
        run_ignored_rules(rec)
    idx += 1
    if rec.mine(idx):
        run_offsets(rec)
    idx += 1
    if rec.mine(idx):
        run_metaparser(rec, quick)
    idx += 1
    if rec.mine(idx):
        run_excel(rec)
    run_random(rec, 30 if quick else 600, 4 if quick else 5)


def replay(rec, rep):
    case = rep['case']
    if case.get('sentinel'):
        return run_sentinels(rec)
    if case.get('kind') == 'reentrant':
        return run_reentrant(rec)
    if case.get('kind') == 'large':
        return run_large(rec, rep.get('tier') != 'thorough', case.get('grammar'))
    if case.get('kind') == 'ignored':
        return run_ignored_rules(rec)
    if case.get('family') == 'offsets':
        return run_offsets(rec)
    if case.get('kind') in ('meta-probe',):
        return run_metaparser(rec, True)
    if case.get('kind') == 'excel-probe':
        return run_excel(rec)
    b = diff.rebuild_from_case(rec, case)
    if b is None:
        return
    text = ast.literal_eval(case['text_repr'])
    probe = probes.RuleEvalProbe(b.g)
    probe.start()
    try:
        diff.compare(rec, b, text, case.get('entry'), monitors=('value',))
        nrules = sum(1 for s in b.grammars[-1]['stmts'] if s[0] in ('rule', 'class'))
        check_calls(rec, probe, nrules, len(text), case, 'replay')
    finally:
        probe.stop()
    b.cleanup()
