"""C19 -- alternative spellings of the grammar language are interchangeable.

Monitor: the renderer emits one AST in every documented spelling / layout; all
variants are compiled with the real sourcer and run on the same inputs; the
outcomes must be identical (real vs real) and equal to the model's for the AST."""
import itertools
import time

from .. import gast, gen, diff, work, observe, refpeg

ID = 'C19'

CTOR_KINDS = ['opt', 'star', 'plus', 'right', 'left', 'alt', 'seq', 'sep', 'rep']


def style_catalogue():
    S = gast.Style
    cat = [
        ('default', S()),
        ('ctor-all', S(ctor=CTOR_KINDS)),
        ('min-parens', S(parens='min')),
        ('redundant-parens', S(parens='redundant')),
        ('colon', S(defsym=':')),
        ('arrow', S(defsym='=>')),
        ('semicolons', S(stmt_sep=';')),
        ('semicolons-spaced', S(stmt_sep=' ; ', class_sep='; ')),
        ('blank-lines', S(stmt_sep='\n\n\n')),
        ('comments', S(comments=True)),
        ('op-breaks', S(op_breaks=True, parens='min')),
        ('ignored-kw', S(ignore_kw='ignored')),
        ('indented', S(indent='        ')),
        ('single-quotes', S(quote="'")),
        ('bare-start', S(start_bare=True)),
        ('mix1', S(ctor=['opt', 'seq', 'left'], parens='min', defsym=':', stmt_sep=';', quote="'")),
        ('mix2', S(ctor=['star', 'plus', 'alt', 'right', 'sep', 'rep'], parens='redundant', defsym='=>', comments=True,
                   ignore_kw='ignored', indent='  ')),
        ('mix3', S(ctor=['rep', 'sep'], parens='min', op_breaks=True, stmt_sep='\n\n', class_sep='; ')),
    ]
    cat += [
        ('trailing-commas', S(trailing_comma=True)),
        ('bracket-breaks', S(bracket_breaks=True)),
        ('bracket-breaks-ctor', S(bracket_breaks=True, trailing_comma=True, ctor=['seq', 'sep', 'rep', 'alt'], parens='min')),
        # grammar.txt accepts the literal flags in either case: B"s", "s"I, B/r/I
        ('upper-flags', S(upper_flags=True)),
        ('upper-flags-ctor', S(upper_flags=True, ctor=['seq', 'alt', 'opt'], quote="'")),
    ]
    for k in CTOR_KINDS:
        cat.append(('ctor-' + k, S(ctor=[k], parens='min')))
    return cat


def plan(tier, seed):
    return dict(
        shards=16,
        rule='ASTs from the C01/C03 generators (depth-1 shapes, random multi-rule grammars, bounds, Sep '
             'option sets, ignore declarations, classes) plus operator-mix ASTs (every ordered pair and '
             'triple of binary operators and postfix forms, so that grouping without parentheses is '
             'exercised against grammar.txt) x %d spelling/layout styles (operator vs constructor forms, '
             '= : =>, newline vs ;, comments, blank lines, line breaks around operators, redundant / '
             'minimal / full parentheses, ignore/ignored, bare start expression, indentation, quotes); '
             'inputs = all strings up to length 4 (quick) / 5 (thorough).  One evaluation = one (style, '
             'input).  Non-trivial = distinct (AST, input) compared across >= 10 styles.' % len(style_catalogue()),
        assumptions=['reference model E1 evaluates the AST', 'constructor forms are not generated for operands '
                     'that are bare inline Python (the statement\'s exception)'],
    )


def leftmost_is_python(e):
    while True:
        k = e[0]
        if k in ('py', 'num'):
            return True
        if k in ('right', 'left', 'where', 'apply', 'lapply', 'sep', 'opt', 'star', 'plus', 'rep', 'optable'):
            if k == 'sep' and gast._sep_op(e) is None:
                return False
            e = e[1]
            continue
        if k == 'alt':
            e = e[1][0]
            continue
        return False


def applicable(G, st):
    if st.start_bare:
        # a bare expression is the whole grammar; one that *begins* with inline Python is read by
        # grammar.txt as a Python statement (Stmt is tried before SingleExpr), so that spelling does
        # not exist for it
        ok = len(G['stmts']) == 1 and G['stmts'][0][0] == 'rule' and G['stmts'][0][1] == 'start'
        if not ok:
            return False
        e = G['stmts'][0][3]
        if 'alt' in st.ctor and e[0] == 'alt':
            return True
        return not leftmost_is_python(e)
    return True


def run_parent_styles(rec, styles):
    """The spelling of a *parent* grammar does not matter to the grammars that extend it: a named
    single-expression parent (bare expression or `start = expr`, in every layout) with a child that
    adds a rule, a child that refers to the inherited start rule by name, and a grandchild."""
    import sys
    parent_rule = ('alt', [('str', 'a'), ('right', ('str', '('), ('left', ('ref', 'start'), ('str', ')')))])
    texts = ['a', '(a)', '((a))', 'b', '(a', 'a,a', '', 'a,(a)', '12', 'a;']
    for sname, st in styles:
        uid = diff.unique_name('vt_c19p')
        names = [uid + '_p', uid + '_extra', uid + '_refer', uid + '_grand']
        GP = dict(name=names[0], extends=None, stmts=[('rule', 'start', None, parent_rule)])
        kids = [dict(name=names[1], extends=names[0], stmts=[('rule', 'Word', None, ('re', '[a-z]+', False))]),
                dict(name=names[2], extends=names[0], stmts=[('rule', 'Items', None, ('sep', ('ref', 'start'), ('str', ','), {'_op': '//'})),
                                                              ('rule', 'Tail', None, ('left', ('ref', 'start'), ('str', ';')))]),
                dict(name=names[3], extends=names[1], stmts=[('rule', 'Number', None, ('re', '[0-9]+', False))])]
        if not applicable(GP, st):
            continue
        try:
            descs = [gast.render_grammar(GP, st)] + [gast.render_grammar(k) for k in kids]
            mods = []
            for d in descs:
                r = observe.compile_grammar(d)
                rec.case()
                if r[0] != 'ok':
                    rec.violation('parent-style-grammar-error:%s:%s' % (sname, r[1] if r[0] != 'timeout' else 'nonterm'), 'Grammar() of a grammar extending a spelling variant',
                                  dict(kind='parent-style', style=sname, descs=descs), 'module', r)
                    mods = None
                    break
                mods.append(r[1])
            if mods is None:
                continue
            rec.count('parent_style_chains')
            chains = [refpeg.build_chain([GP]), refpeg.build_chain([GP, kids[0]]), refpeg.build_chain([GP, kids[1]]), refpeg.build_chain([GP, kids[0], kids[2]])]
            for g, chain, entries in zip(mods, chains, [(None,), (None, 'Word'), (None, 'Items', 'Tail'), (None, 'Number')]):
                for text in texts:
                    for entry in entries:
                        try:
                            exp, model = refpeg.expected(chain, text, entry, 0, True)
                        except (refpeg.IllFormed, refpeg.ModelBudget, RecursionError):
                            rec.drop()
                            continue
                        o = observe.observe(g, text, entry)
                        rec.case()
                        rec.nontrivial(('parent-style', sname, len(chain), entry, text))
                        if not observe.same_outcome(exp, o.outcome):
                            rec.violation('parent-style:%s->%s' % (observe.outcome_class(exp), observe.outcome_class(o.outcome)),
                                          'grammar extending a spelling variant vs reference model (extends chain)',
                                          dict(kind='parent-style', style=sname, descs=descs, entry=entry, text_repr=repr(text)), exp, o.outcome)
        finally:
            for n in names:
                sys.modules.pop(n, None)


def run_ast(rec, G, inputs, tag, styles, entries=(None,)):
    if not gen.well_formed(G):
        rec.drop()
        return
    try:
        chain = refpeg.build_chain([G])
    except Exception:
        rec.drop()
        return
    mods = []
    seen_desc = set()
    for sname, st in styles:
        if not applicable(G, st):
            continue
        d = gast.render_grammar(G, st)
        if d in seen_desc:
            continue
        seen_desc.add(d)
        r = observe.compile_grammar(d)
        if r[0] != 'ok':
            rec.violation('style-grammar-error:%s:%s' % (sname, r[1] if r[0] != 'timeout' else 'nonterm'),
                          'Grammar() outcome of a spelling variant',
                          dict(kind='style', grammars_repr=repr([G]), style=sname, descs=[d], tag=str(tag)), 'module', r)
            continue
        mods.append((sname, d, r[1]))
    if not mods:
        return
    rec.count('asts')
    rec.count('variants_compiled', len(mods))
    for text in inputs:
        for entry in entries:
            try:
                exp, model = refpeg.expected(chain, text, entry, 0, True)
            except (refpeg.IllFormed, refpeg.ModelBudget, RecursionError):
                rec.drop()
                continue
            first = None
            for sname, d, g in mods:
                o = observe.observe(g, text, entry)
                rec.case()
                if not observe.same_outcome(exp, o.outcome):
                    rec.violation('E1:%s:%s->%s' % (sname if first is not None else 'all?', observe.outcome_class(exp),
                                                    observe.outcome_class(o.outcome)) if False else
                                  'style-vs-model:%s->%s' % (observe.outcome_class(exp), observe.outcome_class(o.outcome)),
                                  'spelling variant vs reference model',
                                  dict(kind='style', grammars_repr=repr([G]), style=sname, descs=[d], tag=str(tag),
                                       text_repr=repr(text), entry=entry), exp, o.outcome)
                if first is None:
                    first = (sname, o.outcome)
                elif not observe.same_outcome(first[1], o.outcome):
                    rec.violation('style-differs:%s' % sname, 'N-version comparison of spellings',
                                  dict(kind='style', grammars_repr=repr([G]), style=sname, descs=[d], tag=str(tag),
                                       text_repr=repr(text), entry=entry, other_style=first[0]), first[1], o.outcome)
            if len(mods) >= 10:
                rec.nontrivial((mods[0][1], text, entry))
    rec.sample(dict(tag=str(tag), variants=[m[1] for m in mods[:3]], n_variants=len(mods)), limit=2)


A, B, C = ('str', 'a'), ('str', 'b'), ('re', '[ab]', False)
F = ('py', 'lambda v: [v]')
P = ('py', 'lambda v: v is not None')


def operator_mix():
    """ASTs that need grouping: every ordered pair / triple of binary operators and
    postfix forms over simple operands."""
    def binop(op, x, y):
        if op == '//':
            return ('sep', x, y, {'_op': '//'})
        if op == '/?':
            return ('sep', x, y, {'allow_trailer': True, '_op': '/?'})
        if op == '>>':
            return ('right', x, y)
        if op == '<<':
            return ('left', x, y)
        if op == '|>':
            return ('apply', x, F)
        if op == 'where':
            return ('where', x, P)
        if op == '<|':
            return ('lapply', F, y)
        if op == '|':
            return ('alt', [x, y])
        raise ValueError(op)

    ops = ['//', '/?', '>>', '<<', '|>', 'where', '<|', '|']
    post = [lambda x: ('opt', x), lambda x: ('star', x), lambda x: ('plus', x), lambda x: ('rep', x, 1, 2),
            lambda x: ('rep', x, 2, None)]
    out = []
    for o1, o2 in itertools.product(ops, repeat=2):
        out.append((('pair', o1, o2, 'L'), binop(o2, binop(o1, A, B), C)))
        out.append((('pair', o1, o2, 'R'), binop(o1, A, binop(o2, B, C))))
    for o1 in ops:
        for i, pf in enumerate(post):
            out.append((('post', o1, i, 'inner'), binop(o1, A, pf(B))))
            out.append((('post', o1, i, 'outer'), pf(binop(o1, A, B))))
    for o1, o2, o3 in itertools.product(['//', '>>', '<<', '|', '|>'], repeat=3):
        out.append((('triple', o1, o2, o3), binop(o3, binop(o1, A, binop(o2, B, C)), A)))
    # postfix on postfix: e+? e*? e{1,2}? e?{2} e+{1,2} ... (the operator spelling stacks suffixes, the
    # constructor spelling nests calls)
    def pf(kind, x):
        return {'opt': ('opt', x), 'star': ('star', x), 'plus': ('plus', x), 'rep12': ('rep', x, 1, 2), 'rep2_': ('rep', x, 2, None),
                'rep_2': ('rep', x, None, 2), 'rep2': ('rep', x, 2, 2)}[kind]
    kinds = ['opt', 'star', 'plus', 'rep12', 'rep2_', 'rep_2', 'rep2']
    for outer in kinds:
        for inner in kinds:
            for base in (A, ('alt', [('str', 'ab'), ('str', 'a')])):
                out.append((('postfix2', outer, inner), ('seq', [pf(outer, pf(inner, base)), ('re', '[ab]*', False)])))
    # let bodies, sequences and calls as operands
    out.append((('let',), ('alt', [('let', 'x', A, ('seq', [B, ('py', 'x')])), ('right', B, ('let', 'y', C, ('py', 'y')))])))
    out.append((('table',), ('alt', [('optable', C, [('prefix', [('str', '-')]), ('left', [('str', '+')])]), ('str', '!')])))
    return out


def run_shard(rec):
    quick = rec.tier == 'quick'
    rec.deadline = time.time() + (300 if quick else 900)
    styles = style_catalogue()
    maxlen = 4 if quick else 5
    idx = 0
    for tag, x in operator_mix():
        idx += 1
        if not rec.mine(idx):
            continue
        if x[0] in ('lapply',) and x[2][0] in ('py', 'num'):
            pass
        G = gast.simple_grammar({'start': x})
        run_ast(rec, G, work.inputs_for('ab+-!', 3) if tag == ('table',) else work.inputs_for('ab', maxlen), ('opmix',) + tag, styles)
    # depth-1 shapes (one style subset per shape would hide combinations: all styles for all shapes)
    leaves = [('str', 'a'), ('str', 'ab'), ('re', 'a?', False), ('ref', 'Rab'), ('istr', 'a')]
    for tag, x in gen.depth1(leaves):
        idx += 1
        if not rec.mine(idx):
            continue
        if quick and idx % 2 != rec.seed % 2:
            continue
        G = gen.shape_grammar(('seq', [x, ('re', '[ab]*', False)]), gen.TEXT_LEAF_RULES)
        run_ast(rec, G, work.inputs_for(work.alphabet_for(x, False), maxlen), ('depth1',) + tag, styles)
    # every kind of literal (text and bytes) under every style
    for bytes_mode, zoo in ((False, gen.literal_zoo()), (True, gen.bytes_zoo())):
        rest = ('bre' if bytes_mode else 're', '(?s).*', False)
        for ztag, lit, alpha in zoo:
            idx += 1
            if not rec.mine(idx):
                continue
            G = gast.simple_grammar({'start': ('seq', [('alt', [lit, ('opt', lit)]), rest])})
            ins = list(gen.all_strings(alpha, 3))
            if bytes_mode:
                ins = [t.encode('latin-1') for t in ins]
            run_ast(rec, G, ins, ('literal', ztag), styles)
    # bounds and Sep option sets
    from . import c03
    for o in c03.all_sep_options():
        if o['require_separator'] and not o['allow_trailer']:
            continue
        idx += 1
        if not rec.mine(idx):
            continue
        oo = dict(o)
        if o['discard_separators'] and o['allow_empty'] and not o['require_separator']:
            oo['_op'] = '/?' if o['allow_trailer'] else '//'
        x = ('sep', ('alt', [('str', 'a'), ('str', 'bb')]), ('str', ','), oo)
        run_ast(rec, gast.simple_grammar({'start': ('seq', [x, ('re', '[ab,]*', False)])}),
                work.inputs_for('ab,', maxlen), ('sep', str(sorted(o.items()))), styles)
    for m in range(0, 4):
        for n in [None] + list(range(m, 4)):
            idx += 1
            if not rec.mine(idx):
                continue
            x = ('rep', ('str', 'a'), m if m else (None if n is not None and (m + (n or 0)) % 2 else 0), n)
            if x[2] is None and x[3] is None:
                x = ('rep', ('str', 'a'), 0, None)
            run_ast(rec, gast.simple_grammar({'start': ('seq', [x, ('re', '[ab]*', False)])}),
                    work.inputs_for('ab', maxlen), ('rep', m, n), styles)
    # literals that need escaping, in both quote styles and all layouts
    for ztag, lit, alpha in gen.literal_zoo():
        idx += 1
        if not rec.mine(idx):
            continue
        G = gast.simple_grammar({'start': ('seq', [('star', lit), ('re', '(?s).*', False)])})
        if not gen.well_formed(G):
            rec.drop()
            continue
        run_ast(rec, G, list(gen.all_strings(alpha, 3)), ('zoo', ztag), styles)
    # statement mixes: several anonymous / named ignore statements next to each other, before, between
    # and after the rules, with classes and templates -- the layouts (newline vs ; on ONE line, blank
    # lines, comments) then decide which statements share a line
    W = ('re', '[ab]+', False)
    IG = [('ignore', ('str', ' ')), ('ignore', ('str', ',')), ('ignore', ('re', '_+', False)), ('irule', 'Hash', ('re', '#', False))]
    RULES = [('rule', 'start', None, ('star', ('alt', [('ref', 'Box'), ('call', 'Ang', [('ref', 'Word')]), ('ref', 'Word')]))),
             ('rule', 'Word', None, W),
             ('class', 'Box', None, [('field', 'o', ('str', '[')), ('field', 'w', ('opt', ('ref', 'Word'))), ('field', 'c', ('str', ']'))]),
             ('rule', 'Ang', ['p'], ('seq', [('str', '<'), ('ref', 'p'), ('str', '>')]))]
    mixes = []
    for k in (2, 3, 4):
        igs = IG[:k]
        mixes.append(('ignores-first', igs + RULES))
        mixes.append(('ignores-last', RULES + igs))
        mixes.append(('ignores-between', RULES[:1] + igs[:1] + RULES[1:2] + igs[1:] + RULES[2:]))
        mixes.append(('ignores-reversed', list(reversed(igs)) + RULES))
    mix_inputs = [''.join(t) for n in range(0, 4) for t in __import__('itertools').product(['a', 'b', ' ', ',', '_', '#', '[', ']', '<a>'], repeat=n)][::3]
    for mtag, stmts in mixes:
        idx += 1
        if not rec.mine(idx):
            continue
        run_ast(rec, dict(name=None, extends=None, stmts=stmts), mix_inputs, ('statement-mix', mtag, len(stmts)), styles)
    idx += 1
    if rec.mine(idx):
        run_parent_styles(rec, styles)
    # one name is a rule in one place and a parameter / let variable in another; the same textual form
    # (Opt(Word), Word*, Word // ",") occurs in both scopes
    Wd = ('ref', 'Word')
    for ftag, mk in (('opt', lambda x: ('opt', x)), ('star', lambda x: ('star', x)), ('plus', lambda x: ('plus', x)), ('sep', lambda x: ('sep', x, ('str', ','), {'_op': '//'})),
                     ('seq', lambda x: ('seq', [x, ('opt', x)])), ('alt', lambda x: ('alt', [x, ('str', '!')])), ('right', lambda x: ('right', ('str', '.'), x))):
        for order in ('rule-first', 'param-first'):
            idx += 1
            if not rec.mine(idx):
                continue
            start = ('seq', [mk(Wd), ('call', 'Wrap', [('str', 'x')]), ('let', 'Word', ('str', 'y'), mk(Wd)), ('opt', mk(Wd))]) if order == 'rule-first' else \
                    ('seq', [('call', 'Wrap', [('str', 'x')]), ('let', 'Word', ('str', 'y'), mk(Wd)), mk(Wd)])
            stmts = [('rule', 'start', None, start), ('rule', 'Wrap', ['Word'], ('seq', [('str', '<'), mk(Wd), ('str', '>')])), ('rule', 'Word', None, ('re', '[ab]', False))]
            if order == 'param-first':
                stmts = [stmts[1], stmts[0], stmts[2]]
            run_ast(rec, dict(name=None, extends=None, stmts=stmts), [t for t in work.inputs_for('abxy<>,.!', 3)][::3] + ['a<x>y', 'ab<xx>yya', '<x>ya', '.a<.x>.yb', 'a,b<x,x>y,ya', '<>', 'a<x>y!'],
                    ('scope-shadow', ftag, order), styles)
    # repetition / list / option forms over every kind of leaf in grammars that declare ignore patterns
    # (each element is a token of its own: ignorable text may stand between any two of them)
    LEAVES = [('re-class', ('re', '[ab]', False)), ('re-lit', ('re', 'a', False)), ('str', ('str', 'a')), ('istr', ('istr', 'a')), ('ref', ('ref', 'Rl')),
              ('seq', ('seq', [('str', 'a'), ('str', 'b')]))]
    FORMS = [('star', lambda x: ('star', x)), ('plus', lambda x: ('plus', x)), ('rep02', lambda x: ('rep', x, 0, 2)), ('rep2_', lambda x: ('rep', x, 2, None)),
             ('rep2', lambda x: ('rep', x, 2, 2)), ('sep', lambda x: ('sep', x, ('str', ','), {'_op': '//'})),
             ('sept', lambda x: ('sep', x, ('str', ','), {'allow_trailer': True, '_op': '/?'})), ('opt', lambda x: ('opt', x)), ('left', lambda x: ('left', x, ('star', x)))]
    ign_inputs = [t for t in work.inputs_for('ab ,', 4) if ' ' in t or len(t) <= 2]
    for ltag, leaf in LEAVES:
        for ftag, mk in FORMS:
            for itag, ign in (('anon', ('ignore', ('re', ' +', False))), ('named', ('irule', 'Sp', ('str', ' ')))):
                idx += 1
                if not rec.mine(idx):
                    continue
                if quick and (idx // 16) % 2 != rec.seed % 2:
                    continue
                G = dict(name=None, extends=None, stmts=[('rule', 'start', None, ('seq', [mk(leaf), ('re', '[ab, ]*', False)])),
                                                         ('rule', 'Rl', None, ('re', '[ab]', False)), ign])
                run_ast(rec, G, ign_inputs, ('ignore-shape', ltag, ftag, itag), styles)
    # bounds whose literals differ in digit count (text vs number comparison of the bounds)
    wide_inputs = ['a' * k + t for k in range(0, 14) for t in ('', 'b')]
    for m, n in [(2, 10), (9, 12), (10, 11), (0, 10), (10, None), (None, 10), (12, 12), (1, 100), (9, 10), (3, 3)]:
        idx += 1
        if not rec.mine(idx):
            continue
        x = ('rep', ('str', 'a'), m, n)
        run_ast(rec, gast.simple_grammar({'start': ('seq', [x, ('re', '[ab]*', False)])}), wide_inputs, ('rep-wide', m, n), styles)
    # random multi-rule grammars, with ignore declarations and classes
    n_random = 25 if quick else 700
    for i in range(n_random):
        if rec.out_of_time():
            rec.count('cut_by_time')
            break
        rg = gen.RandomGrammar(rec.rng, maxdepth=rec.rng.randint(2, 5))
        G = rg.grammar()
        if rec.rng.random() < 0.4:
            G['stmts'].append(rec.rng.choice([('ignore', ('re', ' +', False)), ('irule', 'Space', ('str', ' '))]))
        if rec.rng.random() < 0.3:
            G['stmts'].append(('class', 'K', None, [('field', 'a', ('ref', 'start')), ('let', 'b', ('opt', ('str', '!'))),
                                                     ('pass', ('opt', ('str', ';'))), ('field', 'c', ('py', 'b'))]))
        alpha = 'abA' + (' ' if any(s[0] in ('ignore', 'irule') for s in G['stmts']) else '')
        ins = work.inputs_for(alpha, 3 if quick else 4)
        run_ast(rec, G, ins, ('random',), styles, entries=work.rule_entries(G)[:2])


def replay(rec, rep):
    import ast
    case = rep['case']
    if case.get('kind') == 'parent-style':
        return run_parent_styles(rec, [x for x in style_catalogue() if x[0] == case.get('style')])
    G = ast.literal_eval(case['grammars_repr'])[0]
    text = ast.literal_eval(case['text_repr']) if case.get('text_repr') else ''
    run_ast(rec, G, [text], 'replay', style_catalogue(), entries=(case.get('entry'),))
