"""C08 -- parse has exactly three outcomes, fixed by the start rule's match.

Monitors: three-outcome classifier on every recorded call; reference model for
value / partial_result / last_position.index / outcome class; pos-shift relation
(real vs real): parse(text, pos=k) == parse(text[k:]) with positions shifted."""
import time

from .. import gast, gen, diff, work, observe, proggen

ID = 'C08'


def plan(tier, seed):
    return dict(
        shards=16,
        rule='random core grammars (text, bytes, multi-line alphabets), binding/class programs (proggen) and '
             'curated edge grammars (matches that consume nothing, classes matching nothing at the end of '
             'input, nullable start rules); EVERY parameterless rule and class is used as entry point, at '
             'every pos in 0..len(text), with both values of fullparse; inputs = all strings up to length '
             '4 (3 letters) incl. the empty input.  Non-trivial = distinct (description, entry, input, pos, '
             'fullparse) with pos > 0, fullparse False, or a non-start entry.',
        assumptions=['reference model E1', 'shift relation only on grammars generated without Backtrack, '
                     'anchors, \\b or look-behind'],
    )


def inconclusive(counters, evaluations, tier):
    out = []
    if counters.get('curated_shapes_dropped', 0):
        out.append('%d curated grammar(s) were dropped by the generator-side analysis and never ran' % counters['curated_shapes_dropped'])
    if counters.get('shift_pairs', 0) == 0:
        out.append('shift relation evaluated nothing')
    for k in ('outcome:value', 'outcome:partial', 'outcome:error'):
        if counters.get(k, 0) == 0:
            out.append('never observed ' + k)
    return out


def shift_value(v, k):
    if isinstance(v, tuple) and v and v[0] == 'obj':
        sp = v[3]
        if sp is not None and sp[0] != 'raw':
            sp = (sp[0] + k, sp[1] + k)
        return ('obj', v[1], tuple((f, shift_value(x, k)) for f, x in v[2]), sp)
    if isinstance(v, list):
        return [shift_value(x, k) for x in v]
    if isinstance(v, tuple):
        return tuple(shift_value(x, k) for x in v)
    return v


def curated():
    T = ('re', '[ab]', False)
    out = []
    out.append(('empty-class', dict(name=None, extends=None, stmts=[
        ('class', 'start', None, [('field', 'a', ('opt', ('str', 'x')))])])))
    out.append(('empty-class-nested', dict(name=None, extends=None, stmts=[
        ('rule', 'start', None, ('seq', [('star', ('str', 'a')), ('ref', 'C'), ('opt', ('ref', 'D'))])),
        ('class', 'C', None, [('field', 'a', ('opt', ('str', 'x'))), ('field', 'b', ('star', ('str', 'y')))]),
        ('class', 'D', None, [('field', 'c', ('str', 'a'))])])))
    out.append(('nullable-start', gast.simple_grammar({'start': ('star', ('str', 'a'))})))
    out.append(('empty-literal', gast.simple_grammar({'start': ('str', '')})))
    out.append(('expect-only', gast.simple_grammar({'start': ('expect', ('str', 'a'))})))
    out.append(('expectnot-only', gast.simple_grammar({'start': ('expectnot', ('str', 'a'))})))
    out.append(('python-only', gast.simple_grammar({'start': ('py', '42')})))
    out.append(('fail-only', gast.simple_grammar({'start': ('fail', 'never')})))
    out.append(('class-with-let-only', dict(name=None, extends=None, stmts=[
        ('class', 'start', None, [('let', 'h', ('opt', ('str', 'a'))), ('field', 'v', ('py', 'h'))])])))
    out.append(('optable-entry', dict(name=None, extends=None, stmts=[
        ('rule', 'start', None, ('optable', ('ref', 'N'), [('prefix', [('str', '-')]), ('left', [('str', '+')])])),
        ('class', 'N', None, [('field', 'd', T)])])))
    TAG = ('class', 'Tag', None, [('field', 'o', ('str', '<')), ('field', 'w', ('re', '[ab]+', False)), ('field', 'c', ('str', '>'))])
    out.append(('lookahead-class', dict(name=None, extends=None, stmts=[
        ('rule', 'start', None, ('right', ('str', '!'), ('expect', ('ref', 'Tag')))), TAG])))
    out.append(('lookahead-class-list', dict(name=None, extends=None, stmts=[
        ('rule', 'start', None, ('seq', [('opt', ('str', '!')), ('expect', ('ref', 'Tag')), ('opt', ('str', '<'))])), TAG])))
    out.append(('backtrack-class', dict(name=None, extends=None, stmts=[
        ('rule', 'start', None, ('seq', [('ref', 'Tag'), ('backtrack', 2), ('opt', ('re', '[ab]', False))])), TAG])))
    out.append(('multi-line-class', dict(name=None, extends=None, stmts=[
        ('rule', 'start', None, ('star', ('ref', 'L'))),
        ('class', 'L', None, [('field', 'w', ('re', '[ab]*', False)), ('field', 'nl', ('str', '\n'))])])))
    # Backtrack failing as the reason of the overall failure (its own error function is what gets raised)
    out.append(('backtrack-fails', dict(name=None, extends=None, stmts=[
        ('rule', 'start', None, ('seq', [('opt', ('str', 'a')), ('backtrack', 2), ('re', '[ab]*', False)])),
        ('rule', 'Only', None, ('backtrack', 1)),
        ('rule', 'Alt', None, ('alt', [('backtrack', 3), ('seq', [('str', 'b'), ('backtrack', 2)])])),
        ('class', 'Cls', None, [('field', 'a', ('opt', ('str', 'a'))), ('pass', ('backtrack', 2)), ('field', 'r', ('re', '[ab]*', False))])])))
    # zero-width regexes: match the empty string at some positions and fail at others
    out.append(('zero-width-regexes', dict(name=None, extends=None, stmts=[
        ('rule', 'start', None, ('left', ('ref', 'Word'), ('ref', 'End'))),
        ('rule', 'Word', None, ('re', '[ab]+', False)),
        ('rule', 'End', None, ('re', '$', False)),
        ('rule', 'AbsEnd', None, ('re', '\\Z', False)),
        ('rule', 'NotA', None, ('re', '(?!a)', False)),
        ('rule', 'AheadA', None, ('re', '(?=a)', False)),
        ('rule', 'StarEnd', None, ('re', 'a*$', False)),
        ('rule', 'Tail', None, ('opt', ('ref', 'End'))),
        ('rule', 'Alt', None, ('alt', [('ref', 'End'), ('ref', 'Word')])),
        ('rule', 'Guarded', None, ('seq', [('ref', 'NotA'), ('opt', ('ref', 'Word')), ('opt', ('ref', 'AheadA'))])),
        ('class', 'Line', None, [('field', 'word', ('ref', 'Word')), ('field', 'end', ('opt', ('ref', 'End'))),
                                 ('field', 'rest', ('re', '[ab]*', False))])])))
    # bounded repetitions over an element that can match nothing (matches that consume nothing count)
    out.append(('nullable-bounded', dict(name=None, extends=None, stmts=[
        ('rule', 'start', None, ('rep', ('opt', ('str', 'a')), 3, 3)),
        ('rule', 'Range', None, ('rep', ('opt', ('str', 'b')), 1, 2)),
        ('rule', 'AtLeast', None, ('seq', [('rep', ('re', 'a?', False), 2, 4), ('opt', ('str', 'b'))])),
        ('class', 'Cells', None, [('field', 'cells', ('rep', ('left', ('opt', ('re', '[ab]', False)), ('opt', ('str', ','))), 3, 3))])])))
    # parameterised classes used directly as entry points: Cls.parse(*values)(text, pos, fullparse)
    out.append(('class-template-entry', dict(name=None, extends=None, stmts=[
        ('rule', 'start', None, ('alt', [('call', 'Rep', [('num', '2')]), ('call', 'Tagged', [('py', "'s'"), ('num', '1')])])),
        ('class', 'Rep', ['n'], [('field', 'items', ('rep', T, ('name', 'n'), ('name', 'n'))), ('field', 'cnt', ('py', 'n'))]),
        ('class', 'Tagged', ['t', 'k'], [('field', 'head', ('rep', ('str', 'a'), ('name', 'k'), ('name', 'k'))), ('field', 'label', ('py', 't')),
                                         ('field', 'rest', ('re', '[ab]*', False))]),
        ('rule', 'Two', None, ('call', 'Rep', [('num', '2')]))])))
    return out


TEMPLATE_ENTRIES = [('Rep', (0,)), ('Rep', (1,)), ('Rep', (2,)), ('Tagged', ('x', 0)), ('Tagged', (None, 2))]


def run_one(rec, G, tag, alphabet, maxlen, bytes_mode=False, shiftable=True, named=False, extra_entries=()):
    if not gen.well_formed(G):
        rec.drop()
        if isinstance(tag, tuple) and tag and tag[0] == 'curated':
            # a curated grammar must never disappear silently
            rec.count('curated_shapes_dropped')
            rec.note('curated grammar dropped by the well-formedness analysis: %s' % (tag,))
        return
    if named:
        G = dict(G, name=diff.unique_name('vt_c08'))
    b = diff.build(rec, G)
    if b is None:
        return
    rec.count('descriptions')
    entries = work.rule_entries(G) + list(extra_entries)
    desc = b.descs[-1]
    inputs = work.inputs_for(alphabet, maxlen, bytes_mode)
    for text in inputs:
        for entry in entries:
            for pos in range(0, len(text) + 1):
                base = None
                for fp in (True, False):
                    r = diff.compare(rec, b, text, entry, pos, fp, monitors=('value', 'outcome'),
                                     extra_case=dict(tag=str(tag)))
                    if r is None:
                        continue
                    exp, o, model = r
                    rec.count('outcome:' + o.outcome[0])
                    if pos > 0 or not fp or entry is not None:
                        rec.nontrivial((desc, entry, text, pos, fp))
                    if fp:
                        base = o
                    elif base is not None:
                        # fullparse=False returns exactly what the partial error carried
                        a, c = base.outcome, o.outcome
                        ok = True
                        if a[0] == 'partial':
                            ok = c[0] == 'value' and observe.same_outcome(c[1], a[1])
                        elif a[0] in ('value', 'error'):
                            ok = observe.same_outcome(a, c)
                        rec.count('fullparse_pairs')
                        if not ok:
                            rec.violation('fullparse-relation', 'fullparse True vs False (real vs real)',
                                          diff.case_dict(b, text, entry, pos, False, tag=str(tag)), a, c)
                # shift relation on fullparse=True
                if shiftable and pos > 0 and base is not None:
                    o2 = observe.observe(b.g, text[pos:], entry, 0, True)
                    rec.case()
                    rec.count('shift_pairs')
                    a, c = base.outcome, o2.outcome
                    if c[0] == 'value':
                        want = ('value', shift_value(c[1], pos))
                    elif c[0] == 'partial':
                        want = ('partial', shift_value(c[1], pos), c[2] + pos)
                    else:
                        want = c
                    ok = observe.same_outcome(a, want)
                    if ok and a[0] == 'error' and base.exc is not None and o2.exc is not None:
                        try:
                            ok = base.exc.position.index == o2.exc.position.index + pos
                            want = ('error index', o2.exc.position.index + pos)
                            a = ('error index', base.exc.position.index)
                        except Exception:
                            pass
                    if not ok:
                        rec.violation('shift-relation', 'parse(text,pos=k) vs parse(text[k:]) (real vs real)',
                                      diff.case_dict(b, text, entry, pos, True, tag=str(tag), shift=True), want, a)
    rec.sample(dict(description=desc, entries=entries, inputs=len(inputs), tag=str(tag)), limit=2)
    b.cleanup()


def run_chain(rec, grammars, tag, alphabet, maxlen):
    """The three outcomes for grammars that extend another: module-level parse and every rule / class
    the leaf defines as entry point, every offset, both fullparse values."""
    b = diff.build(rec, grammars)
    if b is None:
        return
    rec.count('chain_descriptions')
    # (an inherited rule is the parent's own rule object, bound to the parent: entry points are the
    # module-level parse and what the leaf grammar itself defines, as in C13)
    names = [st[1] for st in grammars[-1]['stmts'] if st[0] in ('rule', 'class') and st[2] is None]
    entries = [None] + names[:6]
    for text in work.inputs_for(alphabet, maxlen):
        for entry in entries:
            for pos in range(0, len(text) + 1):
                for fp in (True, False):
                    r = diff.compare(rec, b, text, entry, pos, fp, monitors=('value', 'outcome'), extra_case=dict(tag=str(tag), chain=True))
                    if r is None:
                        continue
                    rec.count('outcome:' + r[1].outcome[0])
                    rec.nontrivial((b.descs[-1], entry, text, pos, fp))
    b.cleanup()


def deep_partial(rec, quick):
    """The three outcomes for results as deep as the input: a deep match followed by junk raises
    PartialParseError (with the match as partial_result and the right last_position), a deep match
    alone returns, a deep mismatch raises ParseError -- nothing else, at the default recursion limit."""
    import sys
    n = 3000 if quick else 30000
    grammars = {
        'brackets': ('start = ["(", start?, ")"]', '(' * n + ')' * n),
        'classes': ('start = N\nclass N { o: "("; k: N?; c: ")" }', '(' * n + ')' * n),
        'operators': ('start = /[0-9]/ between { left: "+" }', '+'.join(['1'] * n)),
        'prefixes': ('start = /[0-9]/ between { prefix: "-" }', '-' * n + '1'),
    }
    for tag, (desc, text) in sorted(grammars.items()):
        r = observe.compile_grammar(desc)
        if r[0] != 'ok':
            rec.violation('deep-partial:grammar-error', 'Grammar()', dict(kind='deep-partial', grammar=tag), 'module', r)
            continue
        g = r[1]
        old = sys.getrecursionlimit()
        sys.setrecursionlimit(1000)
        try:
            for what, t, want in (('match', text, 'value'), ('match+junk', text + '!', 'partial'), ('mismatch', '!' + text, 'error')):
                rec.case()
                rec.count('deep_outcomes_checked')
                rec.nontrivial(('deep-partial', tag, what))
                try:
                    v = g.parse(t)
                    got = 'value'
                except g.PartialParseError as e:
                    got = 'partial' if e.last_position.index == len(text) else 'partial at %r' % (e.last_position.index,)
                    v = e.partial_result
                except g.ParseError:
                    got, v = 'error', None
                except BaseException as e:
                    got, v = 'other:%s' % type(e).__name__, None
                if got != want:
                    rec.violation('deep-partial:%s->%s' % (want, got), 'three-outcome classifier on results as deep as the input (default recursion limit)',
                                  dict(kind='deep-partial', grammar=tag, what=what, nesting=n, desc=desc), want, got)
                # free the deep structure iteratively
                stack = [v]
                while stack:
                    x = stack.pop()
                    if isinstance(x, list):
                        stack.extend(x)
                        del x[:]
                    elif hasattr(type(x), '_fields') and hasattr(x, '__dict__'):
                        for f in type(x)._fields:
                            stack.append(getattr(x, f, None))
                            try:
                                setattr(x, f, None)
                            except Exception:
                                pass
                del v
        finally:
            sys.setrecursionlimit(old)


def run_shard(rec):
    quick = rec.tier == 'quick'
    rec.deadline = time.time() + (300 if quick else 900)
    idx = 0
    for tag, G in curated():
        idx += 1
        if rec.mine(idx):
            alpha = 'ab,' if tag == 'nullable-bounded' else 'ab\n' if 'multi-line' in tag else ('axy' if 'empty-class' in tag else ('a+-' if tag == 'optable-entry' else 'ab'))
            if 'lookahead-class' in tag or 'backtrack-class' in tag:
                alpha = 'a<>!'
            run_one(rec, G, ('curated', tag), alpha, 5 if quick else 6,
                    shiftable=('backtrack' not in tag),
                    extra_entries=TEMPLATE_ENTRIES if tag == 'class-template-entry' else ())
            if tag == 'class-template-entry':
                # the same through a grammar installed under a name
                run_one(rec, G, ('curated', tag, 'named'), alpha, 4 if quick else 5, named=True, extra_entries=TEMPLATE_ENTRIES)
    if rec.shard == 3:
        deep_partial(rec, quick)
    from . import c13
    for ctag, mode, levels in c13.curated_chains():
        idx += 1
        if rec.mine(idx):
            run_chain(rec, c13.build_curated(levels, dotted=False), ('chain', ctag), 'abc(#' if quick else 'abcd(#!', 3 if quick else 4)
    n = 80 if quick else 1500
    for i in range(n):
        if rec.out_of_time():
            rec.count('cut_by_time')
            break
        kind = i % 4
        if kind == 0:
            rg = gen.RandomGrammar(rec.rng, maxdepth=rec.rng.randint(2, 4))
            G, alpha, bm = rg.grammar(), 'abA', False
        elif kind == 1:
            rg = gen.RandomGrammar(rec.rng, maxdepth=rec.rng.randint(2, 4), bytes_mode=True)
            G, alpha, bm = rg.grammar(), 'abB', True
        elif kind == 2:
            rg = gen.RandomGrammar(rec.rng, maxdepth=rec.rng.randint(2, 4), alphabet='a\n')
            G, alpha, bm = rg.grammar(), 'a\nA', False
        else:
            pg = proggen.ProgGen(rec.rng, maxdepth=3)
            G = pg.grammar()
            if proggen.has_nested_shadow(G):
                rec.drop()
                continue
            alpha, bm = 'ab1(', False
        if i % 3 == 1 and not bm:
            G = dict(G, stmts=list(G['stmts']) + [rec.rng.choice([('ignore', ('re', ' +', False)), ('irule', 'Space', ('str', ' '))])])
            alpha = alpha[:2] + ' '
        run_one(rec, G, ('random', kind), alpha, 3 if quick else 4, bm, named=(i % 5 == 4))


def replay(rec, rep):
    import ast
    case = rep['case']
    if case.get('kind') == 'deep-partial':
        return deep_partial(rec, rep.get('tier') != 'thorough')
    b = diff.rebuild_from_case(rec, case)
    if b is None:
        return
    text = ast.literal_eval(case['text_repr'])
    entry, pos = case.get('entry'), case.get('pos', 0)
    if isinstance(entry, list):
        entry = (entry[0], tuple(entry[1]))
    r = diff.compare(rec, b, text, entry, pos, case.get('fullparse', True), monitors=('value', 'outcome'))
    if case.get('shift') and r is not None:
        o2 = observe.observe(b.g, text[pos:], entry, 0, True)
        a, c = r[1].outcome, o2.outcome
        want = ('value', shift_value(c[1], pos)) if c[0] == 'value' else (
            ('partial', shift_value(c[1], pos), c[2] + pos) if c[0] == 'partial' else c)
        if not observe.same_outcome(a, want):
            rec.violation('shift-relation', 'shift', case, want, a)
    b.cleanup()
