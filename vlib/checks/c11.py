"""C11 -- behaviour does not depend on how the grammar module was produced.

Monitor: N-version comparison (real vs real) of one description under
{unnamed, `grammar <name>`} x {include_source off, on} x {in-memory module,
emitted source executed by a separate interpreter started with -I -S} x
{first, second compilation}; the unnamed in-memory variant is also compared
with the reference model so that a fault common to all variants is not masked."""
import ast
import json
import os
import subprocess
import time

from .. import gast, gen, diff, work, observe, proggen, corpus, refpeg
from . import c02, c06, c10

ID = 'C11'
HERE = os.path.dirname(os.path.dirname(os.path.abspath(__file__)))


def plan(tier, seed):
    return dict(
        shards=16,
        rule='descriptions drawn from the generators of C01/C02/C03/C05/C06/C10 (core shapes, operator tables, '
             'bounds and Sep, bindings, templates, classes with ignore) and every repository description '
             '(tests, docs, README, examples); each compiled as 7 in-memory variants (unnamed/named x '
             'include_source off/on, a second compilation under a fresh name and under the same name) and its emitted source run '
             'in an interpreter started with -I -S (2 variants: unnamed, named); inputs from the owning '
             'generator (model-guided) or, for repository descriptions, the string constants of the same '
             'file.  One evaluation = one (variant, call).  Non-trivial = distinct (description, call) '
             'compared across >= 7 variants.',
        assumptions=['variants are compared on value / error class / error index',
                     'the isolated interpreter has no site-packages and no /repo on its path (reported flags '
                     'are checked)'],
    )


def inconclusive(counters, evaluations, tier):
    out = []
    if counters.get('isolated_modules_run', 0) == 0:
        out.append('no emitted source was executed in the isolated interpreter')
    return out


def with_name(desc, name):
    return 'grammar %s\n%s' % (name, desc)


def variants(rec, desc, has_header=False):
    """Returns {variant name: module or ('fail', outcome)} and sources for the isolated run."""
    out = {}
    srcs = {}
    n1, n2 = diff.unique_name('vt_c11'), diff.unique_name('vt_c11')
    plan_ = [('unnamed', desc, False), ('unnamed+src', desc, True), ('unnamed-again', desc, False)]
    if not has_header:
        # 'named+src' re-uses the name of 'named' (the same name compiled twice), 'named-again' is a
        # fresh name, 'named-same-again' compiles the first name a third time
        plan_ += [('named', with_name(desc, n1), False), ('named+src', with_name(desc, n1), True),
                  ('named-again', with_name(desc, n2), False), ('named-same-again', with_name(desc, n1), False)]
    for vname, d, inc in plan_:
        r = observe.compile_grammar(d, include_source=inc)
        out[vname] = r[1] if r[0] == 'ok' else ('fail', r)
        if r[0] == 'ok' and inc:
            srcs[vname] = (getattr(r[1], '__name__', 'grammar'), r[1]._source_code)
    import sys
    sys.modules.pop(n1, None)
    sys.modules.pop(n2, None)
    return out, srcs


def call_outcome(g, entry, text, pos, fp):
    o = observe.observe(g, text, entry, pos, fp)
    idx = None
    if o.exc is not None and o.outcome[0] in ('error', 'partial'):
        # (an exception of the user's own inline Python -- outcome 'other' -- has no position)
        try:
            idx = o.exc.position.index if o.outcome[0] == 'error' else o.exc.last_position.index
        except Exception:
            idx = 'unreadable'
    return o.outcome, idx


class Batch:
    """Collects emitted sources + calls for one isolated interpreter run."""

    def __init__(self):
        self.items = []
        self.expect = {}

    def add(self, key, sources, calls, expected, case, leaf_name=None):
        i = len(self.items)
        self.items.append(dict(id=i, sources=sources, calls=[[e, repr(t), p, f] for e, t, p, f in calls], leaf_name=leaf_name))
        self.expect[i] = (key, expected, case, calls)

    def run(self, rec):
        if not self.items:
            return
        py = os.environ.get('VERIF_PYTHON', '/venv/bin/python')
        try:
            p = subprocess.run([py, '-I', '-S', os.path.join(HERE, 'isolated_child.py')],
                               input=json.dumps(dict(items=self.items)).encode(), stdout=subprocess.PIPE,
                               stderr=subprocess.PIPE, timeout=900, cwd='/')
            res = json.loads(p.stdout.decode())
        except Exception as e:
            rec.note('isolated interpreter failed: %s' % e)
            rec.count('isolated_batches_failed')
            return
        if res.get('flags') != [1, 1] or res.get('path'):
            rec.note('isolated interpreter not isolated: %r %r' % (res.get('flags'), res.get('path')))
            rec.count('isolated_batches_failed')
            return
        for r in res['results']:
            key, expected, case, calls = self.expect[r['id']]
            rec.count('isolated_modules_run')
            if r.get('foreign_modules'):
                rec.violation('emitted-source-imports:%s' % ','.join(r['foreign_modules']),
                              'isolated interpreter sys.modules', case, 'standard library only', r['foreign_modules'])
            if 'load_error' in r:
                rec.violation('emitted-source-load:%s' % r['load_error'].split(':')[0],
                              'emitted source executed with -I -S', case, 'module loads', r['load_error'])
                continue
            for (o_repr, idx), (want_o, want_idx), call in zip(r['outcomes'], expected, calls):
                rec.case()
                if o_repr != repr(want_o) or idx != want_idx:
                    c = dict(case)
                    c.update(entry=call[0], text_repr=repr(call[1]), pos=call[2], fullparse=call[3])
                    rec.violation('variant-differs:isolated:%s' % key, 'N-version comparison', c,
                                  (want_o, want_idx), (o_repr, idx))
        self.items, self.expect = [], {}


def compare_variants(rec, batch, desc, calls, tag, chain=None, has_header=False, G=None):
    vs, srcs = variants(rec, desc, has_header)
    base = vs['unnamed']
    case = dict(kind='variants', desc=desc, tag=str(tag), grammars_repr=repr([G]) if G else None)
    if isinstance(base, tuple):
        # the description does not compile: every variant must fail the same way
        for vname, g in vs.items():
            rec.case()
            if not isinstance(g, tuple) or g[1][1] != base[1][1]:
                rec.violation('variant-differs:grammar:%s' % vname, 'N-version comparison', case, base[1],
                              g[1] if isinstance(g, tuple) else 'module')
        return
    for vname, g in vs.items():
        if isinstance(g, tuple):
            rec.violation('variant-differs:grammar:%s' % vname, 'N-version comparison (Grammar())', case,
                          'module', g[1])
    rec.count('descriptions')
    expected = []
    for entry, text, pos, fp in calls:
        o0, i0 = call_outcome(base, entry, text, pos, fp)
        expected.append((o0, i0))
        rec.case()
        if chain is not None:
            try:
                exp, model = refpeg.expected(chain, text, entry, pos, fp)
                if model.shadow_events:
                    # postfix operator vs longer infix operator: decided (and recorded as a finding) by
                    # C02; C11 is about the variants agreeing with each other, which is checked below
                    rec.count('e1_skipped_postfix_shadow')
                elif not observe.same_outcome(exp, o0):
                    c = dict(case)
                    c.update(entry=entry, text_repr=repr(text), pos=pos, fullparse=fp)
                    rec.violation('E1:%s->%s' % (observe.outcome_class(exp), observe.outcome_class(o0)),
                                  'reference model vs unnamed in-memory variant', c, exp, o0)
            except (refpeg.IllFormed, refpeg.ModelBudget, RecursionError):
                rec.drop()
        nvar = 1
        for vname, g in vs.items():
            if vname == 'unnamed' or isinstance(g, tuple):
                continue
            o, i = call_outcome(g, entry, text, pos, fp)
            rec.case()
            nvar += 1
            if not observe.same_outcome(o0, o) or i0 != i:
                c = dict(case)
                c.update(entry=entry, text_repr=repr(text), pos=pos, fullparse=fp)
                rec.violation('variant-differs:%s' % vname, 'N-version comparison', c, (o0, i0), (o, i))
        if nvar >= 7 or (has_header and nvar >= 3):
            rec.nontrivial((desc, entry, text, pos, fp))
    for vname, (mname, src) in srcs.items():
        batch.add(vname, [[mname if mname != 'grammar' else 'vt_iso_grammar', src]], calls, expected,
                  dict(case, variant=vname))
    rec.sample(dict(description=desc[:400], calls=len(calls), tag=str(tag)), limit=3)


# descriptions whose Python sections keep state: a second compilation starts from a fresh state, as
# does the emitted source executed on its own (every variant sees the same calls in the same order)
STATEFUL = [
    ('counter', '```\nseen = []\ndef note(x):\n    seen.append(x)\n    return len(seen)\n```\nstart = (Word |> `note`)*\nWord = /[a-z]/\n',
     ['abc', '', 'ab', 'a1', 'zz']),
    ('typedefs', '```\ntypes = {"int"}\ndef define(n):\n    types.add(n)\n    return ("def", n)\n```\n'
                 'start = (Def | Use)*\nDef = "type " >> (Name |> `define`) << ";"\n'
                 'Use = (Name where `lambda n: n in types`) << ";"\nName = /[a-z]+/\nignore /[ ]+/\n',
     ['int;', 'foo;', 'type foo; foo;', 'foo;', 'bar; type bar;', 'type bar;', 'bar;']),
    # Python sections are compiled like ordinary module code, whoever compiles them: annotations are
    # evaluated (no compiler flag leaks in from the caller), module attributes like __name__ exist
    ('annotations', '```\ndef conv(x: int, pad: str = "0") -> int:\n    return int(x)\nCAST = conv.__annotations__["x"]\nwidth: int = 3\n'
                    'class Box:\n    size: int = 2\n```\nstart = (/[0-9]+/ |> `CAST`)+ << Tail\nTail = `(width, Box.__annotations__["size"](1.5), isinstance(CAST, type))`\nignore / +/\n',
     ['7', '12 3', '', 'x']),
    # ... and so are assert statements and docstrings (the saved source is run by an interpreter without -O)
    ('asserts-docstrings', '```\ndef check(x):\n    "a documented helper"\n    assert x != "b", "no b please"\n    return (x, check.__doc__, __debug__)\n```\n'
                           'start = (/[abc]/ |> `check`)*\n',
     ['a', 'ac', '', 'ab', 'b']),
    ('generation-counter', '```\nimport itertools\nfresh = itertools.count(1)\n```\nstart = ("x" >> `next(fresh)`)*\n',
     ['xx', 'x', '', 'xxx']),
]


def name_reuse(rec):
    """A name compiled with description A, then with a different description B, then with A again:
    a grammar that extends the name afterwards builds on A (and, in the other order, on B)."""
    import sys
    # (B differs from A in its rule set, its ignore declarations and the spelling of its start rule, so
    # that a child built on a stale reading of the name is visibly different)
    descs = {'A': 'start = "a"+\nTail = "!"', 'B': 'ignore " "\nStart = Item+\nItem = "b"\nTail = "?"\nMore = "x"'}
    child = 'grammar %s extends %s\nTop = [super.Tail, Tail?]\nTail = "+" | super.Tail'
    texts = ['a', 'aa!', 'b', 'bb?', 'a?', 'b!', '', 'b b', 'bb ?', 'a a', ' b']
    # 'c' = a (throw-away) grammar extending the name is compiled at that point; 'F' / 'G' = a Grammar()
    # call under the name that fails after its description has been read (raising Python section /
    # reference to an unknown parent): the installed module stays what it was
    failing = {'F': '```\nraise ValueError("no")\n```\nstart = "z"+\nTail = "~"', 'G': 'start = "z"+\nTail = `undefined_name_xyz`\n```\nraise KeyError("k")\n```'}
    for order in (['A', 'B', 'A'], ['B', 'A', 'B'], ['A', 'A', 'B', 'A'], ['A', 'B', 'B'], ['A', 'c', 'B'], ['A', 'c', 'B', 'c', 'A'], ['B', 'c', 'c', 'A'],
                  ['A', 'F'], ['A', 'c', 'F'], ['B', 'G', 'c'], ['A', 'F', 'B', 'G']):
        name, cname = diff.unique_name('vt_c11n'), diff.unique_name('vt_c11c')
        ref_name, ref_cname = diff.unique_name('vt_c11rn'), diff.unique_name('vt_c11rc')
        extra_names = []
        try:
            for k in order:
                if k == 'c':
                    tmp = diff.unique_name('vt_c11t')
                    extra_names.append(tmp)
                    observe.compile_grammar(child % (tmp, name))
                    continue
                if k in failing:
                    r = observe.compile_grammar(with_name(failing[k], name))
                    rec.count('failing_grammar_calls')
                    if r[0] == 'ok':
                        rec.note('a description meant to fail compiled: %s' % k)
                    continue
                r = observe.compile_grammar(with_name(descs[k], name))
                if r[0] != 'ok':
                    rec.violation('name-reuse:grammar-error', 'Grammar()', dict(kind='name-reuse', order=order), 'module', r)
                    return
            got_g = observe.compile_grammar(child % (cname, name))
            last_ok = [k for k in order if k in descs][-1]
            observe.compile_grammar(with_name(descs[last_ok], ref_name))
            want_g = observe.compile_grammar(child % (ref_cname, ref_name))
            if got_g[0] != 'ok' or want_g[0] != 'ok':
                rec.violation('name-reuse:grammar-error', 'Grammar() of the extension', dict(kind='name-reuse', order=order), 'modules', (got_g[:2], want_g[:2]))
                return
            for t in texts:
                want, got = call_outcome(want_g[1], None, t, 0, True), call_outcome(got_g[1], None, t, 0, True)
                rec.case()
                rec.count('name_reuse_calls')
                rec.nontrivial(('name-reuse', tuple(order), t))
                if not observe.same_outcome(want, got):
                    rec.violation('name-reuse:extension-built-on-stale-module', 'extension of a re-used name vs extension of a fresh name',
                                  dict(kind='name-reuse', order=order, text_repr=repr(t)), want, got)
        finally:
            for n in [name, cname, ref_name, ref_cname] + extra_names:
                sys.modules.pop(n, None)


# parents whose descriptions are awkward to carry around as a docstring (extends re-reads the parent's
# description): triple-quoted literals, quotes, backslashes, non-ASCII text, comments, Python sections
SAVED_PARENTS = [
    ('triple-double', 'start = Item*\nItem = Q | Word\nQ = \"\"\"<<\"\"\" >> Word << \"\"\">>\"\"\"\nWord = /[a-z]+/\nignore / +/', ['a <<b>> c', '<<a', 'a b', '']),
    ('triple-single', "start = Item*\nItem = Q | Word\nQ = '''<''' >> Word << '''>'''\nWord = /[a-z]+/\nignore / +/", ['a <b> c', '<a', '']),
    ('backslashes', 'start = Item*\nItem = Num | Esc | Word\nNum = /\\d+/\nEsc = "\\\\" >> /[nt\\\\]/\nWord = /[a-z]+/\nignore /[ \\t]+/',
     ['a 12 \\n', '\\\\', 'a\\', '7']),
    ('quotes', 'start = Item*\nItem = D | S | Word\nD = "\\"" >> Word << "\\""\nS = "\'" >> Word << "\'"\nWord = /[a-z]+/\nignore / +/',
     ['"a" \'b\' c', '"a', '']),
    ('non-ascii', 'start = Item*  # caf\u00e9 \u20ac\nItem = E | Word\nE = "\u20ac" >> Word\nWord = /[a-z\u00e9]+/\nignore / +/', ['\u20aca caf\u00e9', '\u20ac', 'a']),
    ('python-section', '```\nSEP = \'\"\"\"|\\\\\'\ndef tag(x):\n    return (len(SEP), x)\n```\nstart = Item*\nItem = Word |> `tag`\nWord = /[a-z]+/\nignore / +/', ['a bc', '']),
]
SAVED_CHILD = 'grammar %s extends %s\nItem = ("!" >> super.Item) | super.Item\n'


def saved_parents(rec):
    """The parent's emitted source, executed on its own and installed under the parent's name, serves a
    later `extends` like the in-memory parent module does."""
    import sys
    import types
    for tag, pdesc, texts in SAVED_PARENTS:
        pname, c1, c2 = diff.unique_name('vt_c11p'), diff.unique_name('vt_c11k'), diff.unique_name('vt_c11k')
        case = dict(kind='saved-parent', tag=tag, desc=pdesc)
        try:
            rp = observe.compile_grammar(with_name(pdesc, pname), include_source=True)
            if rp[0] != 'ok':
                rec.violation('saved-parent:grammar-error', 'Grammar() of the parent', case, 'module', rp)
                continue
            rc1 = observe.compile_grammar(SAVED_CHILD % (c1, pname))
            saved = types.ModuleType(pname)
            try:
                exec(compile(rp[1]._source_code, '<saved %s>' % pname, 'exec'), saved.__dict__)
            except Exception as e:
                rec.violation('saved-parent:source-does-not-load', 'emitted parent source executed on its own', case, 'loads', '%s: %s' % (type(e).__name__, str(e)[:120]))
                continue
            sys.modules[pname] = saved
            rc2 = observe.compile_grammar(SAVED_CHILD % (c2, pname))
            rec.case()
            rec.count('saved_parent_children_compiled')
            if rc1[0] != 'ok' or rc2[0] != 'ok':
                if rc1[:2] != rc2[:2]:
                    rec.violation('saved-parent:child-grammar-differs', 'child compiled against the in-memory parent vs against the saved parent source',
                                  case, rc1[:2], rc2[:2])
                continue
            for t in texts + ['!' + x for x in texts]:
                for mods, what in (((rp[1], saved), 'parent'), ((rc1[1], rc2[1]), 'child')):
                    want, got = call_outcome(mods[0], None, t, 0, True), call_outcome(mods[1], None, t, 0, True)
                    rec.case()
                    rec.nontrivial(('saved-parent', tag, what, t))
                    if not observe.same_outcome(want, got):
                        rec.violation('saved-parent:%s-differs' % what, 'in-memory module vs module built on / from the saved parent source',
                                      dict(case, text_repr=repr(t)), want, got)
        finally:
            for n in (pname, c1, c2):
                sys.modules.pop(n, None)


def generated(rec, i):
    """(tag, G, inputs alphabet extras) from the owning generators."""
    k = i % 7
    r = rec.rng
    if k == 0:
        return 'core', gen.RandomGrammar(r, maxdepth=r.randint(2, 5)).grammar()
    if k == 1:
        return 'core-bytes', gen.RandomGrammar(r, maxdepth=r.randint(2, 4), bytes_mode=True).grammar()
    if k == 2:
        rows = c02.random_table(r)
        return 'optable', c02.build_grammar(r, rows, r.choice(['lit', 'ref', 'class']), r.choice([None, 'discard', 'class']),
                                            r.random() < 0.5, False)
    if k == 3:
        G = proggen.ProgGen(r).grammar()
        return 'bindings', G
    if k == 4:
        return 'classes', c10.ClassGen(r, lookahead=r.random() < 0.3).grammar()
    if k == 5:
        tname = r.choice(sorted(c06.BODIES))
        calls = list(c06.calls_for(tname))
        atag, args = r.choice(calls)
        params = c06.BODIES[tname][0]
        ctag, cargs = r.choice(list(c06.conventions(params, args)))
        return 'templates', c06.build_grammar(('seq', [('call', tname, cargs), ('re', '[ab!]*', False)]), [tname])
    x = ('sep', ('alt', [('str', 'a'), ('str', 'bb')]), ('str', ','),
         {'allow_trailer': r.random() < 0.5, 'discard_separators': r.random() < 0.5, 'allow_empty': r.random() < 0.5})
    return 'sep', gast.simple_grammar({'start': ('seq', [('rep', ('str', 'a'), r.randint(0, 2), r.randint(2, 3)), x, ('re', '[ab,]*', False)])})


def repository_cases():
    """(origin, description, [input strings]) -- inputs are the string constants of the same file."""
    repo = observe.REPO
    by_file = {}
    for origin, d in corpus.repository_descriptions():
        by_file.setdefault(origin, []).append(d)
    out = []
    for origin, descs in by_file.items():
        path = os.path.join(repo, origin)
        strings = []
        try:
            with open(path) as f:
                src = f.read()
            if origin.endswith('.py'):
                tree = ast.parse(src)
                for node in ast.walk(tree):
                    if isinstance(node, ast.Constant) and isinstance(node.value, (str, bytes)) and len(node.value) < 160:
                        strings.append(node.value)
            else:
                import re
                for m in re.finditer(r"parse\((['\"])(.*?)\1\)", src):
                    strings.append(m.group(2))
        except Exception:
            pass
        uniq = []
        for s in strings:
            if s not in uniq and s not in descs:
                uniq.append(s)
        for d in descs:
            out.append((origin, d, uniq[:60]))
    return out


def chain_variants(rec, batch):
    """Sub-grammars: the in-memory chain vs parent and child sources written out and executed in
    the isolated interpreter (the emitted child source may import only its parent module)."""
    from . import c13
    import sys
    for tag, mode, levels, dotted, alias in [(t, m, l, d, a) for t, m, l in c13.curated_chains() for d, a in ((False, False), (True, False), (True, True), (False, True))]:
        # dotted names (parent and child in one package); with `alias` the child's saved source is
        # loaded under another module name than the one in its header
        grammars = c13.build_curated(levels, dotted=dotted)
        descs = [gast.render_grammar(G) for G in grammars]
        mods = []
        ok = True
        for d in descs:
            r = observe.compile_grammar(d, include_source=True)
            if r[0] != 'ok':
                ok = False
                break
            mods.append(r[1])
        for G in grammars:
            sys.modules.pop(G['name'], None)
        if not ok:
            rec.drop()
            continue
        g = mods[-1]
        tokens, ign = c13.alphabet_of(grammars, mode)
        ins = list(gen.all_strings(tokens[:5], 2))[:40]
        try:
            ins += [t for t in gen.Sampler(rec.rng, grammars, ign).sentences('start', 25) if len(t) <= 14]
        except Exception:
            pass
        calls = [(None, t, 0, True) for t in ins]
        # every rule / class of the chain as entry point through the leaf module -- inherited ones
        # included (the saved leaf source re-exports what it inherits)
        names = []
        for G in grammars:
            for st in G['stmts']:
                if st[0] in ('rule', 'class') and st[2] is None and st[1] not in names:
                    names.append(st[1])
        calls += [(n, t, 0, True) for n in names[:6] for t in ins[:6]]
        expected = [call_outcome(g, e, t, p, f) for e, t, p, f in calls]
        rec.case(len(calls))
        rec.count('chain_descriptions')
        for c in calls:
            rec.nontrivial((descs[-1], c[1]))
        batch.add('chain', [[G['name'], m._source_code] for G, m in zip(grammars, mods)], calls, expected,
                  dict(kind='variants', desc='\n||\n'.join(descs), tag=str(('chain', tag, 'dotted' if dotted else 'flat', 'alias' if alias else 'own-name')),
                       variant='chain-isolated'), leaf_name=('vt_saved_leaf_%d' % len(batch.items)) if alias else None)


def run_shard(rec):
    quick = rec.tier == 'quick'
    rec.deadline = time.time() + (300 if quick else 800)
    batch = Batch()
    idx = 0
    if rec.shard == 1 or not quick:
        chain_variants(rec, batch)
        batch.run(rec)
    for origin, d, strings in repository_cases():
        idx += 1
        if not rec.mine(idx):
            continue
        has_header = d.lstrip().startswith('grammar ')
        is_bytes = any(isinstance(s, bytes) for s in strings) and ('b"' in d or "b'" in d or '0x' in d)
        ins = [s for s in strings if isinstance(s, bytes) == is_bytes][:25 if quick else 60] + ([b''] if is_bytes else [''])
        calls = [(None, t, 0, True) for t in ins] + [(None, t, 0, False) for t in ins[:5]]
        compare_variants(rec, batch, d, calls, ('repository', origin), has_header=has_header)
    # the curated template / binding shapes of C06 and C05 (keyword calls, higher-order templates,
    # name clashes, captured names, class templates ...): every one in all variants
    from . import c05
    fixed = [('c06', tag, dict(name=None, extends=None, stmts=list(stmts) + [x for x in c06.EXTRA_RULES if x[1] not in {y[1] for y in stmts}]))
             for tag, stmts in c06.curated_special() if not tag.startswith('byte')]
    fixed += [('c05', tag, dict(name=None, extends=None, stmts=list(stmts))) for tag, stmts in c05.curated_classes()]
    for origin, tag, G in fixed:
        idx += 1
        if not rec.mine(idx):
            continue
        if not gen.well_formed(G) or c06.sig_for(G):
            rec.drop()
            continue
        try:
            chain = refpeg.build_chain([G])
        except Exception:
            rec.drop()
            continue
        alpha = work.grammar_alphabet(G, '')
        ins = work.guided_inputs(rec.rng, chain, alpha or 'ab', rounds=60 if quick else 200, keep=20 if quick else 50,
                                 seeds=[''], exhaustive_len=2)[:30 if quick else 100]
        calls = [(None, t, 0, True) for t in ins]
        compare_variants(rec, batch, gast.render_grammar(G), calls, ('curated', origin, tag), chain=chain, G=G)
        if len(batch.items) >= 12:
            batch.run(rec)
    for tag, d, texts in STATEFUL:
        idx += 1
        if rec.mine(idx):
            compare_variants(rec, batch, d, [(None, t, 0, True) for t in texts], ('stateful', tag))
    idx += 1
    if rec.mine(idx):
        name_reuse(rec)
    idx += 1
    if rec.mine(idx):
        saved_parents(rec)
    n = 14 if quick else 400
    for i in range(n):
        if rec.out_of_time():
            rec.count('cut_by_time')
            break
        tag, G = generated(rec, i + rec.shard)
        if not gen.well_formed(G) or proggen.has_nested_shadow(G) or c06.sig_for(G):
            rec.drop()
            continue
        try:
            chain = refpeg.build_chain([G])
        except Exception:
            rec.drop()
            continue
        bytes_mode = any(e[0] in ('bstr', 'bistr', 'bre', 'byte') for top in gast.grammar_exprs(G) for e in gast.walk(top))
        alpha = work.grammar_alphabet(G, ' ' if any(s[0] in ('ignore', 'irule') for s in G['stmts']) else '')
        seeds = [t for t in gen.Sampler(rec.rng, G).sentences(refpeg.Model(chain, '').entry_name(), 20) if len(t) < 30]
        ins = work.guided_inputs(rec.rng, chain, alpha or 'ab', rounds=60 if quick else 200, keep=20 if quick else 50,
                                 seeds=[''] + seeds, exhaustive_len=1)[:40 if quick else 120]
        if bytes_mode:
            ins = [t.encode('latin-1') for t in ins]
        entries = work.rule_entries(G)[:3]
        calls = []
        for t in ins:
            for e in entries:
                calls.append((e, t, 0, True))
            if len(t) > 1:
                calls.append((None, t, 1, False))
        desc = gast.render_grammar(G)
        compare_variants(rec, batch, desc, calls, ('generated', tag), chain=chain, G=G)
        if len(batch.items) >= 12:
            batch.run(rec)
    batch.run(rec)


def replay(rec, rep):
    case = rep['case']
    if case.get('kind') == 'name-reuse':
        return name_reuse(rec)
    if case.get('kind') == 'saved-parent':
        return saved_parents(rec)
    desc = case['desc']
    batch = Batch()
    for tag, d, texts in STATEFUL:
        if d == desc:
            # state evolves over the whole call sequence: replay all of it
            compare_variants(rec, batch, d, [(None, t, 0, True) for t in texts], ('stateful', tag))
            batch.run(rec)
            return
    if case.get('text_repr'):
        calls = [(case.get('entry'), ast.literal_eval(case['text_repr']), case.get('pos', 0), case.get('fullparse', True))]
    else:
        calls = [(None, '', 0, True)]
    chain = None
    if case.get('grammars_repr') and case['grammars_repr'] != 'None':
        try:
            chain = refpeg.build_chain(ast.literal_eval(case['grammars_repr']))
        except Exception:
            chain = None
    compare_variants(rec, batch, desc, calls, 'replay', chain=chain, has_header=desc.lstrip().startswith('grammar '))
    batch.run(rec)
