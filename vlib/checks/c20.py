"""C20 -- user-chosen names cannot collide with generated code.

Monitor: renamed-vs-original relation (real vs real): a grammar and its
consistently renamed twin must behave identically once class / field names in
the results are mapped back; after renaming, visit / traverse / transform / == /
hash / repr are exercised too (a shadowed builtin breaks the runtime, not the
parse).  Two regimes keep attribution unambiguous: single-name renamings (one
identifier -> one hostile name) and multi-name renamings into names outside
every known-finding class."""
import builtins
import keyword
import re
import time

from .. import gast, gen, diff, work, observe, refpeg

ID = 'C20'

API = {'parse', 'Infix', 'Prefix', 'Postfix', 'ParsedObject', 'ParseError', 'PartialParseError', 'InputError',
       'ParsingRule', 'visit', 'traverse', 'transform'}
# reserved words of the description language itself (not identifiers a user can choose)
# words with a meaning in the description language; Python keywords among them are excluded by the
# statement itself, the others are ordinary identifiers and are in the pool (class K6 when they fail)
LANGUAGE = {'let', 'where', 'between', 'ignore', 'ignored', 'override', 'overrides', 'grammar',
            'extends', 'requires', 'super', 'left', 'right', 'infix', 'prefix', 'postfix', 'mixfix'}
# `start` / `Start` name the entry point: renaming something else to it changes which rule is the
# start rule, which is the documented meaning of that name, not a collision
EXCLUDED = {'start', 'Start'}

TEMP_BASES = ['value', 'end', 'match', 'matcher', 'item', 'staging', 'checkpoint', 'backtrack', 'farthest_pos',
              'farthest_err', 'arg', 'func', 'start_pos', 'has_result', 'farthest_result', 'farthest_position',
              'farthest_error_result', 'farthest_error_position', 'saw_separator']
K1 = re.compile(r'^(%s)\d+$' % '|'.join(TEMP_BASES))
K5 = re.compile(r'^(let|True|False|None|where)\w+$')


def expression_attrs():
    observe.load_sourcer()
    import sourcer.expressions as ex
    return {n for n in dir(ex) if not n.startswith('_')}


def constructor_names(ex_attrs):
    """Names that are built-in expression constructors of the description language (classes of
    sourcer.expressions and the functions Left / Right / Some): a user template with such a name is
    the remaining K3 mechanism.  Other attributes of the package (submodules, constants, helpers)
    were intercepted too until the fix in /repo; they are ordinary names now."""
    import inspect
    import sourcer.expressions as ex
    out = set()
    for n in ex_attrs:
        obj = getattr(ex, n, None)
        if (isinstance(obj, type) or inspect.isfunction(obj)) and n[:1].isupper():
            out.add(n)
    return out


def classify(name, role, ex_attrs):
    """Mechanism class of a hostile name (for the known-findings signature)."""
    if K1.match(name):
        return 'K1-generated-temporary'
    if name in constructor_names(ex_attrs) and role in ('template', 'class-template'):
        return 'K3-expression-constructor'
    if hasattr(builtins, name) and name not in LANGUAGE:
        return 'K2-python-builtin'
    if K5.match(name):
        return 'K5-keyword-prefix'
    if name in LANGUAGE:
        return 'K6-language-word'
    return 'none'


GLOBAL_ROLES = ('rule', 'class', 'template', 'class-template', 'ignore-rule')


def scope_of(role):
    """Where the user name lives in the emitted module: a module global or a function local."""
    return 'global' if role in GLOBAL_ROLES else 'local'


def hostile_pool(ex_attrs):
    pool = []
    for b in TEMP_BASES:
        for n in (1, 2, 3):
            pool.append('%s%d' % (b, n))
    pool += ['text', 'pos', 'start_', 'result', 'memo', 'stack', 'key', 'gtor', 'node', 'self', 'cls', 'kw', 'field',
             'other', 'fullparse', 'title', 'line', 'col', 'excerpt', 'details', 'message', 'status', 'ctx', 'index',
             'column', 'nodes', 'callbacks', 'callback', 'updates', 'was', 'now', 'child', 'traversing', 'visited',
             'items', 'name', 'definition', 'func', 'args', 'kwargs', 'string_value', 'parse_function', 'byte_value',
             'left_', 'operator', 'right_', 'partial_result', 'last_position', 'position', 'line_numbers',
             'column_numbers', 'current_line', 'current_column', 'c', 'k', 'f', 'x', 'i', 'v', 're', 'sys', 'nt',
             'namedtuple', 'compile']
    pool += ['len', 'isinstance', 'list', 'tuple', 'dict', 'id', 'hash', 'reversed', 'getattr', 'hasattr', 'set',
             'enumerate', 'object', 'bytes', 'repr', 'max', 'slice', 'int', 'str', 'type', 'print', 'iter', 'next',
             'staticmethod', 'Exception', 'ValueError', 'TypeError', 'super_', 'bool', 'min', 'sorted', 'range', 'zip', 'map']
    pool += sorted(n for n in ex_attrs if n not in ('class_',))
    pool += ['match', 'case', 'type', 'letter', 'lettuce', 'Nonesuch', 'Truelove', 'Falsetto', 'whereabouts', 'inner',
             'classy', 'betweenx', 'ignoreme', 'passage', 'requiresx', 'overridex', 'grammarx', 'extendsx', 'superb']
    pool += sorted(LANGUAGE)
    # every single letter, and fragments of the words the description language and Python treat
    # specially (a name must be matched whole, never as a piece of None / True / let / where ...)
    pool += list('abcdefghijklmnopqrstuvwxyzNTF')
    pool += ['on', 'ne', 'one', 'No', 'Non', 'Nones', 'Tru', 'rue', 'Fals', 'alse', 'le', 'et', 'wher', 'here', 'clas', 'lass', 'pas', 'ass',
             'requir', 'quires', 'gramma', 'rammar', 'extend', 'xtends', 'betwee', 'etween', 'ignor', 'gnore', 'overrid', 'verride', 'supe', 'uper',
             'lef', 'eft', 'righ', 'ight', 'infi', 'nfix', 'prefi', 'postfi', 'mixfi', 'star', 'tart', 'St', 'STAR']
    out = []
    for n in pool:
        if n in out or n.startswith('_') or keyword.iskeyword(n) or n in API or n in EXCLUDED:
            continue
        if not n.isidentifier():
            continue
        out.append(n)
    return out


# -- the renaming engine ---------------------------------------------------------------

def rename_python(src, mapping):
    """Rename identifiers in inline Python source (NAME tokens only: string literals and
    attribute names after a dot are left alone)."""
    import io
    import tokenize
    try:
        toks = list(tokenize.generate_tokens(io.StringIO(src).readline))
    except (tokenize.TokenError, SyntaxError, IndentationError):
        def sub(m):
            return mapping.get(m.group(0), m.group(0))
        return re.sub(r'\b[A-Za-z_][A-Za-z_0-9]*\b', sub, src)
    lines = src.split('\n')
    edits = []
    prev = None
    for t in toks:
        if t.type == tokenize.NAME and t.string in mapping and not (prev is not None and prev.string == '.'):
            edits.append((t.start[0] - 1, t.start[1], t.end[1], mapping[t.string]))
        if t.type not in (tokenize.NL, tokenize.NEWLINE, tokenize.INDENT, tokenize.DEDENT, tokenize.COMMENT):
            prev = t
    for row, a, b, new in sorted(edits, reverse=True):
        if row < len(lines):
            lines[row] = lines[row][:a] + new + lines[row][b:]
    return '\n'.join(lines)


def rename_expr(e, mp):
    k = e[0]
    if k in ('ref', 'super'):
        return (k, mp.get(e[1], e[1]))
    if k == 'py':
        return ('py', rename_python(e[1], mp))
    if k == 'let':
        return ('let', mp.get(e[1], e[1]), rename_expr(e[2], mp), rename_expr(e[3], mp))
    if k == 'call':
        args = []
        for a in e[2]:
            if isinstance(a, tuple) and a and a[0] == 'kw':
                args.append(('kw', mp.get(a[1], a[1]), rename_expr(a[2], mp)))
            else:
                args.append(rename_expr(a, mp))
        return ('call', mp.get(e[1], e[1]), args)
    if k == 'rep':
        def b(x):
            if isinstance(x, tuple) and x[0] == 'name':
                return ('name', mp.get(x[1], x[1]))
            if isinstance(x, tuple) and x[0] == 'py':
                return ('py', rename_python(x[1], mp))
            return x
        return ('rep', rename_expr(e[1], mp), b(e[2]), b(e[3]))
    return gen.map_children(e, lambda c: rename_expr(c, mp))


def rename_grammar(G, mp):
    stmts = []
    for s in G['stmts']:
        k = s[0]
        if k == 'rule':
            stmts.append(('rule', mp.get(s[1], s[1]), None if s[2] is None else [mp.get(p, p) for p in s[2]], rename_expr(s[3], mp)))
        elif k == 'irule':
            stmts.append(('irule', mp.get(s[1], s[1]), rename_expr(s[2], mp)))
        elif k == 'ignore':
            stmts.append(('ignore', rename_expr(s[1], mp)))
        elif k == 'class':
            ms = []
            for m in s[3]:
                if m[0] in ('field', 'let'):
                    ms.append((m[0], mp.get(m[1], m[1]), rename_expr(m[2], mp)))
                elif m[0] == 'pass':
                    ms.append(('pass', rename_expr(m[1], mp)))
                else:
                    ms.append(('requires', rename_python(m[1], mp)))
            stmts.append(('class', mp.get(s[1], s[1]), None if s[2] is None else [mp.get(p, p) for p in s[2]], ms))
        else:
            stmts.append(s)
    return dict(name=G.get('name'), extends=G.get('extends'), stmts=stmts)


def unrename_value(v, inv):
    if isinstance(v, tuple) and v and v[0] == 'obj':
        if v[1] in ('Infix', 'Prefix', 'Postfix'):
            # fields of the module's own node classes are not user names
            return ('obj', v[1], tuple((f, unrename_value(x, inv)) for f, x in v[2]), v[3])
        return ('obj', inv.get(v[1], v[1]), tuple((inv.get(f, f), unrename_value(x, inv)) for f, x in v[2]), v[3])
    if isinstance(v, list):
        return [unrename_value(x, inv) for x in v]
    if isinstance(v, tuple):
        return tuple(unrename_value(x, inv) for x in v)
    return v


# -- template grammars with named roles ---------------------------------------------------

def template_grammars():
    """(tag, grammar, {identifier: role}) -- identifiers are distinct across roles."""
    T = ('re', '[a-z]+', False)
    # the template's own inline Python mentions no global name at all (a user name equal to a builtin
    # that the *user's* Python calls would be a collision between two user names, not with generated code)
    N = ('apply', ('re', '[0-9]+', False), ('py', 'lambda _ds: _ds.__len__()'))
    out = []
    stmts = [
        ('rule', 'start', None, ('star', ('ref', 'Entry'))),
        ('rule', 'Entry', None, ('alt', [('ref', 'Pair'), ('ref', 'Group'), ('call', 'Wrap', [('ref', 'Word'), ('num', '2')]),
                                        ('ref', 'Bound'), ('ref', 'Hoist'), ('ref', 'Tagged'), ('ref', 'Word')])),
        ('class', 'Pair', None, [('field', 'lhs', ('ref', 'Word')), ('field', 'mid', ('alt', [('str', ':'), ('str', '=')])),
                                 ('field', 'rhs', ('alt', [('ref', 'Num'), ('ref', 'Word')])),
                                 ('let', 'hid', ('opt', ('str', '!'))), ('field', 'more', ('star', ('right', ('str', ','), ('ref', 'Num')))),
                                 ('field', 'echo', ('py', '(lhs, hid)'))]),
        ('rule', 'Group', None, ('right', ('str', '('), ('left', ('sep', ('ref', 'Entry'), ('str', ';'), {'allow_trailer': True, '_op': '/?'}), ('str', ')')))),
        ('rule', 'Wrap', ['par', 'cnt'], ('seq', [('str', '<'), ('rep', ('ref', 'par'), None, ('name', 'cnt')), ('str', '>'), ('py', 'cnt')])),
        ('rule', 'Bound', None, ('let', 'var', ('right', ('str', '$'), ('ref', 'Word')),
                                 ('seq', [('opt', ('str', '?')), ('where', ('ref', 'Word'), ('py', 'lambda _t: _t != var')), ('py', 'var')]))),
        # bound names used inside expressions that are moved into helper functions: an argument of a
        # parameterised rule mentioning a let name in a count, and a class field in inline Python
        ('rule', 'Hoist', None, ('let', 'hv', ('right', ('str', '%'), N), ('call', 'Wrap', [('rep', ('ref', 'Word'), ('name', 'hv'), ('name', 'hv')), ('num', '1')]))),
        ('class', 'Tagged', None, [('field', 'fopen', ('right', ('str', '&'), ('ref', 'Word'))),
                                   ('field', 'fbody', ('call', 'Wrap', [('where', ('ref', 'Word'), ('py', 'lambda _t: _t != fopen')), ('num', '1')]))]),
        ('rule', 'Num', None, N),
        ('rule', 'Word', None, T),
        ('irule', 'Blank', ('re', ' +', False)),
    ]
    roles = {'Entry': 'rule', 'Group': 'rule', 'Num': 'rule', 'Word': 'rule', 'Bound': 'rule', 'Pair': 'class',
             'lhs': 'field', 'mid': 'field', 'rhs': 'field', 'hid': 'let-field', 'more': 'field', 'echo': 'field',
             'Wrap': 'template', 'par': 'param', 'cnt': 'param', 'var': 'let', 'Blank': 'ignore-rule',
             'Hoist': 'rule', 'hv': 'let', 'Tagged': 'class', 'fopen': 'field', 'fbody': 'field'}
    out.append(('main', dict(name=None, extends=None, stmts=stmts), roles))
    stmts2 = [
        ('rule', 'start', None, ('optable', ('ref', 'Atom'), [('mixfix', [('ref', 'Paren')]), ('postfix', [('str', '!')]),
                                                                ('prefix', [('str', '-')]), ('left', [('str', '*')]), ('left', [('str', '+')])])),
        ('class', 'Atom', None, [('field', 'tok', ('longest', [('re', '[0-9]+', False), ('re', '[0-9]+x', False)]))]),
        ('class', 'Paren', ['opener'], [('field', 'open', ('ref', 'opener')), ('field', 'body', ('ref', 'start')), ('field', 'close', ('str', ')'))]),
    ]
    stmts2[0] = ('rule', 'start', None, ('optable', ('ref', 'Atom'), [('mixfix', [('call', 'Paren', [('str', '(')])]), ('postfix', [('str', '!')]),
                                                                     ('prefix', [('str', '-')]), ('left', [('str', '*')]), ('left', [('str', '+')])]))
    roles2 = {'Atom': 'class', 'tok': 'field', 'Paren': 'class-template', 'opener': 'param', 'open': 'field', 'body': 'field',
              'close': 'field'}
    out.append(('optable', dict(name=None, extends=None, stmts=stmts2), roles2))
    # every kind of construct compiled into a body that also holds bound names (parameter, let, field):
    # keyword calls, an operator table handed to a template, lists, Longest, Skip, lookahead -- and
    # fields declared *after* such constructs
    W, NUM = ('ref', 'Word'), ('ref', 'Num')
    stmts3 = [
        ('rule', 'start', None, ('star', ('ref', 'Item'))),
        ('rule', 'Item', None, ('alt', [('ref', 'KwLet'), ('ref', 'KwCall'), ('ref', 'KwCls'), ('ref', 'TabCls'), ('ref', 'Misc'), ('ref', 'UseRep')])),
        ('rule', 'Pairing', ['first', 'second'], ('seq', [('ref', 'first'), ('str', '~'), ('ref', 'second')])),
        ('rule', 'KwLet', None, ('let', 'kl', ('right', ('str', 'k'), W),
                                 ('call', 'Pairing', [('kw', 'first', W), ('kw', 'second', ('where', W, ('py', 'lambda _t: _t != kl')))]))),
        ('rule', 'KwTpl', ['kp'], ('call', 'Pairing', [('kw', 'second', ('ref', 'kp')), ('kw', 'first', W)])),
        ('rule', 'KwCall', None, ('right', ('str', 't'), ('call', 'KwTpl', [('str', '!')]))),
        ('class', 'KwCls', None, [('field', 'kf', ('right', ('str', '@'), W)), ('field', 'kg', ('call', 'Pairing', [('kw', 'first', W), ('kw', 'second', NUM)])),
                                  ('field', 'kh', ('py', 'kf'))]),
        ('rule', 'Wrap1', ['wp'], ('right', ('str', '<'), ('left', ('ref', 'wp'), ('str', '>')))),
        ('class', 'TabCls', None, [('field', 'ta', ('right', ('str', '#'), ('call', 'Wrap1', [('optable', W, [('postfix', [('str', '!')]), ('left', [('str', '+')])])]))),
                                   ('field', 'tb', W), ('field', 'tc', ('py', 'tb'))]),
        ('class', 'Misc', None, [('field', 'ma', ('right', ('str', '^'), W)), ('field', 'mb', ('sep', NUM, ('str', ','), {'_op': '//'})),
                                 ('field', 'mc', ('opt', ('longest', [NUM, W]))), ('field', 'md', ('skip', [('str', ';')])),
                                 ('field', 'me', ('right', ('expectnot', ('str', '^')), ('py', 'ma'))),
                                 ('field', 'mf', ('rep', ('str', '.'), None, 2))]),
        # a class template with a value parameter, also used directly as entry point: RepC.parse(2)(text)
        ('class', 'RepC', ['cn'], [('field', 'ri', ('rep', W, ('name', 'cn'), ('name', 'cn'))), ('field', 'rt', ('py', 'cn'))]),
        ('rule', 'UseRep', None, ('right', ('str', '*'), ('call', 'RepC', [('num', '2')]))),
        ('rule', 'Num', None, ('re', '[0-9]+', False)),
        ('rule', 'Word', None, T),
        ('irule', 'Blank', ('re', ' +', False)),
    ]
    roles3 = {'RepC': 'class-template', 'cn': 'param', 'ri': 'field', 'rt': 'field', 'UseRep': 'rule',
              'Item': 'rule', 'Pairing': 'template', 'first': 'param', 'second': 'param', 'KwLet': 'rule', 'kl': 'let',
              'KwTpl': 'template', 'kp': 'param', 'KwCall': 'rule', 'KwCls': 'class', 'kf': 'field', 'kg': 'field', 'kh': 'field',
              'Wrap1': 'template', 'wp': 'param', 'TabCls': 'class', 'ta': 'field', 'tb': 'field', 'tc': 'field',
              'Misc': 'class', 'ma': 'field', 'mb': 'field', 'mc': 'field', 'md': 'field', 'me': 'field', 'mf': 'field'}
    out.append(('constructs', dict(name=None, extends=None, stmts=stmts3), roles3))
    # a grammar that extends another one: what the derived grammar itself defines (rules, classes,
    # fields, a template, a class template, parameters, a let variable) is renamed; the parent
    # (PARENTS['derived'], compiled first under a fixed name) is not
    stmts4 = [
        ('rule', 'PItem', None, ('alt', [('ref', 'DPair'), ('call', 'DBox', [('ref', 'PWord')]), ('call', 'DWrap', [('ref', 'PWord')]), ('ref', 'DList'), ('super', 'PItem')])),
        ('class', 'DPair', None, [('field', 'dk', ('right', ('str', '@'), ('ref', 'PWord'))), ('field', 'dv', ('right', ('str', '='), ('ref', 'DNum'))), ('field', 'de', ('py', 'dk'))]),
        ('class', 'DBox', ['dp'], [('field', 'db', ('right', ('str', '['), ('left', ('ref', 'dp'), ('str', ']'))))]),
        ('rule', 'DWrap', ['dq'], ('let', 'dl', ('str', '<'), ('seq', [('ref', 'dq'), ('str', '>'), ('py', 'dl')]))),
        ('rule', 'DList', None, ('right', ('str', '('), ('left', ('sep', ('ref', 'DNum'), ('str', ','), {'_op': '//'}), ('str', ')')))),
        ('rule', 'DNum', None, N),
    ]
    roles4 = {'DPair': 'class', 'dk': 'field', 'dv': 'field', 'de': 'field', 'DBox': 'class-template', 'dp': 'param', 'db': 'field',
              'DWrap': 'template', 'dq': 'param', 'dl': 'let', 'DList': 'rule', 'DNum': 'rule'}
    out.append(('derived', dict(name='vt_c20_derived', extends='vt_c20_parent', stmts=stmts4), roles4))
    # names of the grammar itself in the OTHER namespace: a field (parameter, let variable) spelled like
    # a rule / template that is mentioned in its own definition or before it, and nowhere in the rest
    # of its scope (CROSSINGS lists the renamings that are legitimate by that rule)
    stmts5 = [
        ('rule', 'start', None, ('star', ('ref', 'XEntry'))),
        ('class', 'XEntry', None, [('field', 'xa', ('call', 'XBr', [('alt', [('ref', 'XNum'), ('ref', 'XWord')])])),
                                   ('field', 'xb', ('call', 'XBr', [('alt', [('ref', 'XWord'), ('str', '-')])])),
                                   ('field', 'xc', ('py', 'xa')),
                                   ('field', 'xd', ('let', 'xl', ('opt', ('ref', 'XSign')), ('seq', [('str', ';'), ('py', 'xl')])))]),
        ('rule', 'XBr', ['xe'], ('right', ('str', '('), ('left', ('ref', 'xe'), ('str', ')')))),
        ('rule', 'XNum', None, ('re', '[0-9]+', False)),
        ('rule', 'XWord', None, T),
        ('rule', 'XSign', None, ('alt', [('str', '+'), ('str', '~')])),
        ('irule', 'XBlank', ('re', ' +', False)),
    ]
    roles5 = {'xa': 'field', 'xb': 'field', 'xc': 'field', 'xd': 'field', 'xl': 'let', 'xe': 'param'}
    out.append(('crossing', dict(name=None, extends=None, stmts=stmts5), roles5))
    return out


# template 'crossing': a local name takes the spelling of a global name of the same grammar where the
# language's scoping keeps the two apart (the rule is mentioned at or before the binding only)
CROSSINGS = [{'xa': 'XNum'}, {'xb': 'XWord'}, {'xb': 'XBr'}, {'xc': 'XNum'}, {'xc': 'XWord'}, {'xc': 'XBr'}, {'xc': 'XSign'},
             {'xd': 'XSign'}, {'xd': 'XNum'}, {'xl': 'XSign'}, {'xl': 'XNum'}, {'xe': 'XNum'}, {'xe': 'XWord'}, {'xe': 'XSign'},
             {'xa': 'XNum', 'xb': 'XWord', 'xd': 'XSign'}, {'xb': 'XBr', 'xc': 'XWord', 'xl': 'XSign', 'xe': 'XNum'}]


PARENTS = {'derived': 'grammar vt_c20_parent\nstart = PItem*\nPItem = PWord\nPWord = /[a-z]+/\nignore PBlank = / +/\n'}
_parents_built = {}


def ensure_parent(tag):
    """The parent of a derived template grammar is compiled once per worker and stays installed."""
    if tag in PARENTS and tag not in _parents_built:
        r = observe.compile_grammar(PARENTS[tag])
        if r[0] != 'ok':
            raise RuntimeError('C20 parent grammar does not compile: %r' % (r,))
        _parents_built[tag] = r[1]


# inputs rejected in the MIDDLE (a ParseError that is not at the end of the input takes its own path
# through the generated error functions), appended to every template's inputs
MID_INPUT_ERRORS = {
    'main': ['?', 'a ?', ('rule', 'Pair', 'a:?x'), ('rule', 'Pair', 'a?:1'), ('rule', 'Group', '(a?x'), ('rule', 'Bound', '$?x'), ('rule', 'Entry', '?x')],
    'constructs': ['?', ('rule', 'Misc', '^?x'), ('rule', 'Misc', '^a 1,?x'), ('rule', 'KwLet', 'k ?x'), ('rule', 'UseRep', '*?x')],
    'derived': ['?', ('rule', 'DPair', '@a=?x'), ('rule', 'DPair', '@?x'), ('rule', 'DList', '(1,?x'), ('rule', 'DNum', '?x')],
    'crossing': ['?', ('rule', 'XEntry', '(1)(?x'), ('rule', 'XEntry', '(?x'), ('rule', 'XNum', '?x')],
    'optable': ['?', '1+?', '(1?'],
}


INPUTS = {
    'main': ['', 'a', 'a:1', 'a=b', 'a:1,2,3', 'a:1! b', '(a;b:2;)', '<a b>', '<a>3', '$a b', '$a ? b', '$a a', 'a:1 (b) <c d> $e f',
             '(a:1,2;(b))', 'a:', '(a', '<a b c>', '$', 'a : 1 , 2', '%22 <a b>', '%1 <a>', '%1 <>', '&a <b>', '&a <a>', '%22 <a> &x <y>', '<a b>', '<a b>22'],
    'constructs': ['', 'k a b~c', 'k a b~a', 't a~!', '@a b~1', '#<a+b!> c', '#<a> b', '^a 1,2 x;', '^a ;;..', '^a 1 22 ;.',
                   'k a b~c t d~! @e f~2 #<g+h> i ^j 1,2,3 9 ; ..', 'k a b', '@a b~', '#<a+> c', '^', '^a 1, ;', '*a b', '*a',
                   ('rule', 'Misc', '^a 1,2 x;'), ('rule', 'KwLet', 'k a b~c'), ('rule', 'UseRep', '*a b'),
                   ('entry', 'RepC', (2,), 'a b'), ('entry', 'RepC', (1,), 'a b'), ('entry', 'RepC', (0,), ''), ('entry', 'RepC', (3,), 'a b')],
    'derived': ['', 'a b', '@a=12', '@a=1 b', '[a]', '[a] [b]', '<a>', 'a<b>', '(1,22)', '()', '@a=', '[a', '<a', '(1,', 'a @b=3 [c] <d> (4,5) e', '@ a = 1',
                ('rule', 'DNum', '123'), ('rule', 'DList', '(1,2)'), ('rule', 'DPair', '@a=1'), ('rule', 'DNum', 'x')],
    'crossing': ['', '(1)(a);', '(a)(-)+;', '(12) (b) ~ ;', '(1)(a);(b)(c)+;', '(1)(a)', '(-)(a);', '(1)(2);', '( 1 ) ( a ) ;',
                 ('rule', 'XEntry', '(1)(a)+;'), ('rule', 'XNum', '12')],
    'optable': ['1', '1+2', '1+2*3', '-1!', '(1+2)*3', '12x+1', '(1', '1+', '((1))!', '1*(2+3)!'],
}


for _k, _v in MID_INPUT_ERRORS.items():
    INPUTS[_k] = INPUTS[_k] + [t for t in _v if t not in INPUTS[_k]]


def exercise(g, text, mp=None):
    """parse + the documented tree API; returns a normal form (or the exception).  An input may be a
    tuple ('entry', class template, arguments, text): the class template is then the entry point."""
    if isinstance(text, tuple) and text[0] == 'rule':
        # a rule / class of the grammar as entry point: ('rule', name, text)
        _, rname, text = text
        o = observe.observe(g, text, entry=(mp or {}).get(rname, rname))
    elif isinstance(text, tuple):
        _, cname, args, text = text
        o = observe.observe(g, text, entry=((mp or {}).get(cname, cname), args))
    else:
        o = observe.observe(g, text)
    extra = None
    if o.value is not None:
        try:
            objs = list(g.visit(o.value))
            ev = sum(1 for _ in g.traverse(o.value))
            tr = g.transform(o.value, lambda n: n)
            eq = (tr == o.value)
            hs = [isinstance(hash(x), int) for x in objs[:5]]
            rp = [type(repr(x)).__name__ for x in objs[:5]]
            rebuilt = [x._replace() == x for x in objs[:5]]
            extra = (len(objs), ev, bool(eq), all(hs), rp, all(rebuilt))
        except Exception as e:
            extra = ('api-raised', type(e).__name__, str(e)[:100])
    idx = None
    if o.exc is not None and o.outcome[0] in ('error', 'partial'):
        try:
            idx = o.exc.position.index if o.outcome[0] == 'error' else o.exc.last_position.index
        except Exception:
            idx = 'unreadable'
    return o.outcome, idx, extra


def run_renaming(rec, tag, G, base, mp, roles, ex_attrs, regime, inputs):
    inv = {v: k for k, v in mp.items()}
    G2 = rename_grammar(G, mp)
    d2 = gast.render_grammar(G2)
    # attribution: the (role, class) of the hostile names involved
    classes = sorted({(roles.get(old, '?'), classify(new, roles.get(old, '?'), ex_attrs), new) for old, new in mp.items()})
    worst = [c for c in classes if c[1] != 'none']
    if worst:
        role, klass, name = worst[0]
        # mechanism class, where the name lives, and the name itself: the known-findings file lists
        # exactly the (class, scope, name) triples that fail on the pinned tree, so that a *new*
        # collision of the same class (another name, or the same name in the other scope) is reported
        sigp = '%s:%s:%s:' % (klass, scope_of(role), name)
    else:
        sigp = 'none:%s:' % ('+'.join(sorted({c[0] for c in classes})))
    case = dict(kind='rename', template=tag, mapping=mp, regime=regime, descs=[d2], grammars_repr=repr([G2]))
    r = observe.compile_grammar(d2)
    rec.case()
    rec.nontrivial((tag, tuple(sorted(mp.items()))))
    if r[0] != 'ok':
        rec.violation(sigp + 'grammar-error:%s' % (r[1] if r[0] != 'timeout' else 'nonterm'), 'Grammar() of the renamed description',
                      case, 'module', r)
        return
    g2 = r[1]
    for text in inputs:
        want = base[text]
        got = exercise(g2, text, mp)
        rec.case()
        o = got[0]
        if o[0] == 'value':
            o = ('value', unrename_value(o[1], inv))
        elif o[0] == 'partial':
            o = ('partial', unrename_value(o[1], inv), o[2])
        got = (o, got[1], got[2])
        if not observe.same_outcome(want, got):
            which = 'parse' if not observe.same_outcome(want[0], got[0]) or want[1] != got[1] else 'api'
            rec.violation(sigp + '%s-differs:%s->%s' % (which, observe.outcome_class(want[0]), observe.outcome_class(got[0])),
                          'renamed vs original (real vs real)', dict(case, text_repr=repr(text)), want, got)
            break


def plan(tier, seed):
    return dict(
        shards=16,
        rule='two template grammars with 17 + 7 named roles (rules, classes, fields incl. let fields, template, '
             'class template, parameters, let variable, named ignore rule) x a hostile pool of ~%d names '
             '(generated temporaries <base>1..3, names of locals/globals of the runtime template, Python '
             'builtins, attributes of sourcer.expressions, soft keywords, keyword-prefixed words): every '
             'single (role, name) renaming, plus seeded multi-name renamings of all identifiers into names '
             'outside the known-finding classes; each renamed grammar is compiled, run on the template\'s '
             'inputs and its results exercised with visit / traverse / transform / == / hash / repr / '
             '_replace.  One evaluation = one compiled renaming or one compared call.  Non-trivial = distinct '
             'renamings compiled.' % 230,
        assumptions=['start / Start are not in the pool (renaming to them changes the entry point by definition); '
                     'words of the description language that are not Python keywords are in the pool',
                     'known-finding classes are decided by the hostile name and the role alone (classify())'],
    )


def inconclusive(counters, evaluations, tier):
    return []


def run_shard(rec):
    quick = rec.tier == 'quick'
    rec.deadline = time.time() + (300 if quick else 900)
    ex_attrs = expression_attrs()
    pool = hostile_pool(ex_attrs)
    idx = 0
    for tag, G, roles in template_grammars():
        # (hand-written grammars; the conservative template analysis of vlib/gen.py rejects them
        # because parameters are assumed nullable -- they are well-formed by inspection)
        ensure_parent(tag)
        r = observe.compile_grammar(gast.render_grammar(G))
        if r[0] != 'ok':
            rec.violation('template-grammar-error', 'Grammar() of the original template', dict(kind='rename', template=tag), 'module', r)
            continue
        g = r[1]
        inputs = INPUTS[tag]
        base = {t: exercise(g, t) for t in inputs}
        used = set(roles)
        # single-name regime
        for old in sorted(roles):
            for new in pool:
                if new in used or new == old:
                    continue
                idx += 1
                if not rec.mine(idx):
                    continue
                if rec.out_of_time():
                    rec.count('cut_by_time')
                    break
                run_renaming(rec, tag, G, base, {old: new}, roles, ex_attrs, 'single', inputs)
                rec.count('single_renamings')
        if tag == 'crossing':
            for mp in CROSSINGS:
                idx += 1
                if rec.mine(idx):
                    run_renaming(rec, tag, G, base, mp, roles, ex_attrs, 'crossing', inputs)
                    rec.count('crossing_renamings')
        # multi-name regime: everything renamed at once into names outside the known classes
        safe = [n for n in pool if all(classify(n, role, ex_attrs) == 'none' for role in set(roles.values()))]
        for k in range(6 if quick else 60):
            idx += 1
            if not rec.mine(idx):
                continue
            names = rec.rng.sample(safe, len(roles))
            mp = dict(zip(sorted(roles), names))
            run_renaming(rec, tag, G, base, mp, roles, ex_attrs, 'multi', inputs)
            rec.count('multi_renamings')
        rec.sample(dict(template=tag, description=gast.render_grammar(G), roles=roles, pool_size=len(pool)), limit=2)


def replay(rec, rep):
    case = rep['case']
    ex_attrs = expression_attrs()
    for tag, G, roles in template_grammars():
        if tag != case.get('template'):
            continue
        ensure_parent(tag)
        g = observe.compile_grammar(gast.render_grammar(G))[1]
        inputs = INPUTS[tag]
        base = {t: exercise(g, t) for t in inputs}
        run_renaming(rec, tag, G, base, case['mapping'], roles, ex_attrs, case.get('regime', 'single'), inputs)
