"""Generators of grammars and inputs, and the well-formedness analysis that
keeps them inside the side conditions of the properties (no left recursion, no
repetition / Skip / Sep of something that can succeed without consuming)."""
import itertools
import re

try:
    import re._parser as _sre_parse
except ImportError:                                   # pragma: no cover
    import sre_parse as _sre_parse

from . import gast


def regex_min_width(pat, binary=False):
    try:
        p = _sre_parse.parse(pat.encode('ascii') if binary else pat)
        return p.getwidth()[0]
    except Exception:
        return 0


# ---------------------------------------------------------------------------
# nullability (greatest fixed point => conservative) and left recursion

NEG, POSW = -8, 8          # clipped range of the net-width lower bound


def _clip(w):
    return NEG if w <= NEG else (POSW if w >= POSW else w)


def _add(a, b):
    if a <= NEG or b <= NEG:
        return NEG
    return _clip(a + b)


class Analysis:
    """minw(e): lower bound of the net movement of the position when e succeeds
    (negative with Backtrack).  `nullable` means minw <= 0."""

    def __init__(self, grammars):
        if isinstance(grammars, dict):
            grammars = [grammars]
        self.rules = {}
        self.params = {}
        if len(grammars) > 1:
            grammars = self._flatten_chain(grammars)
        for G in grammars:
            for s in G['stmts']:
                k = s[0]
                if k == 'rule':
                    self.rules[s[1]] = ('rule', s[3])
                    self.params[s[1]] = s[2]
                elif k == 'irule':
                    self.rules[s[1]] = ('rule', s[2])
                    self.params[s[1]] = None
                elif k == 'bare':
                    self.rules['start'] = ('rule', s[1])
                    self.params['start'] = None
                elif k == 'class':
                    self.rules[s[1]] = ('class', s[3])
                    self.params[s[1]] = s[2]
        self._solve()

    @staticmethod
    def _flatten_chain(grammars):
        """An extends-chain as one namespace: the most derived definition keeps the plain name
        (late binding), shadowed definitions are renamed name@level and `super.R` becomes a plain
        reference to the definition it denotes."""
        defined = {}
        for lvl, G in enumerate(grammars):
            for s in G['stmts']:
                if s[0] in ('rule', 'irule', 'class'):
                    defined.setdefault(s[1], []).append(lvl)

        def key(name, lvl):
            levels = defined.get(name, [])
            if not levels or lvl == levels[-1]:
                return name
            return '%s@%d' % (name, lvl)

        def below(name, lvl):
            levels = [l for l in defined.get(name, []) if l < lvl]
            if not levels:
                return name + '@missing'
            return key(name, levels[-1])

        out = []
        for lvl, G in enumerate(grammars):
            def fix(e, lvl=lvl):
                if e[0] == 'super':
                    return ('ref', below(e[1], lvl))
                if e[0] == 'call' and e[1].startswith('super.'):
                    e = ('call', below(e[1][len('super.'):], lvl), e[2])
                return map_children(e, fix)
            stmts = []
            for s in G['stmts']:
                if s[0] == 'rule':
                    stmts.append(('rule', key(s[1], lvl), s[2], fix(s[3])))
                elif s[0] == 'irule':
                    stmts.append(('irule', key(s[1], lvl), fix(s[2])))
                elif s[0] == 'class':
                    ms = []
                    for m in s[3]:
                        if m[0] in ('field', 'let'):
                            ms.append((m[0], m[1], fix(m[2])))
                        elif m[0] == 'pass':
                            ms.append(('pass', fix(m[1])))
                        else:
                            ms.append(m)
                    stmts.append(('class', key(s[1], lvl), s[2], ms))
                elif s[0] == 'ignore':
                    stmts.append(('ignore', fix(s[1])))
                else:
                    stmts.append(s)
            out.append(dict(name=None, extends=None, stmts=stmts))
        return out

    def _solve(self):
        # Bellman-Ford style: start from "never succeeds" (+inf) and relax downwards; this
        # yields the exact minimal net width of every rule (clipped), NEG on negative cycles
        self.minw_rule = {n: POSW for n in self.rules}
        converged = False
        for _ in range(40 * max(1, len(self.rules))):
            changed = False
            for n, (kind, body) in self.rules.items():
                v = min(self._rule_minw(kind, body), self.minw_rule[n])
                if v != self.minw_rule[n]:
                    self.minw_rule[n] = v
                    changed = True
            if not changed:
                converged = True
                break
        if not converged:
            self.minw_rule = {n: NEG for n in self.rules}

    def member_exprs(self, body):
        out = []
        for m in body:
            if m[0] in ('field', 'let'):
                out.append(m[2])
            elif m[0] == 'pass':
                out.append(m[1])
        return out

    def _rule_minw(self, kind, body):
        if kind == 'rule':
            return self.minw(body)
        w = 0
        for ex in self.member_exprs(body):
            w = _add(w, self.minw(ex))
        return w

    def nullable(self, e):
        return self.minw(e) <= 0

    def minw(self, e):
        k = e[0]
        if k in ('str', 'bstr', 'istr', 'bistr'):
            return _clip(len(e[1]))
        if k == 're':
            return _clip(regex_min_width(e[1]))
        if k == 'bre':
            return _clip(regex_min_width(e[1], True))
        if k == 'byte':
            return 1
        if k == 'fail':
            return POSW
        if k == 'ref':
            if e[1] in self.rules and self.params.get(e[1]) is None:
                return self.minw_rule[e[1]]
            return 0              # bound name: the generators never bind backtracking parsers
        if k == 'super':
            return self.minw_rule.get(e[1], 0)
        if k == 'seq':
            w = 0
            for x in e[1]:
                w = _add(w, self.minw(x))
            return w
        if k in ('right', 'left', 'where', 'apply', 'lapply'):
            return _add(self.minw(e[1]), self.minw(e[2]))
        if k == 'let':
            return _add(self.minw(e[2]), self.minw(e[3]))
        if k in ('alt', 'longest'):
            return min(self.minw(x) for x in e[1]) if e[1] else 0
        if k == 'opt':
            return min(0, self.minw(e[1]))
        if k == 'star':
            return 0 if self.minw(e[1]) >= 0 else NEG
        if k == 'plus':
            w = self.minw(e[1])
            return w if w >= 0 else NEG
        if k == 'rep':
            w = self.minw(e[1])
            if w < 0:
                return NEG
            m = e[2]
            if m is None or isinstance(m, tuple):
                return 0
            return _clip(m * w)
        if k in ('expect', 'expectnot', 'py', 'num'):
            return 0
        if k == 'skip':
            return 0 if all(self.minw(c) >= 0 for c in e[1]) else NEG
        if k == 'backtrack':
            return _clip(-e[1])
        if k == 'sep':
            we, ws = self.minw(e[1]), self.minw(e[2])
            if we < 0 or ws < 0:
                return NEG
            if e[3].get('allow_empty', True):
                return 0
            return we
        if k == 'call':
            w = self.minw_rule.get(e[1], 0)
            for a in gast.children(e):
                if self.minw(a) < 0:
                    return NEG
            return min(w, 0) if w > 0 and self._uses_params_as_parser(e[1]) is None else w
        if k == 'optable':
            ws = [self.minw(c) for c in gast.children(e)]
            if any(w < 0 for w in ws):
                return NEG
            w = self.minw(e[1])
            for kind, ops in e[2]:
                if kind == 'mixfix':
                    for o in ops:
                        w = min(w, self.minw(o))
            return w
        raise ValueError(k)

    def _uses_params_as_parser(self, name):
        return True

    # every repetition-like construct must have consuming children
    def repetition_ok(self, e):
        for x in gast.walk(e):
            k = x[0]
            if k in ('star', 'plus'):
                if self.minw(x[1]) < 1:
                    return False
            elif k == 'rep':
                if x[3] is None or isinstance(x[3], tuple):
                    if self.minw(x[1]) < 1:
                        return False
                elif self.minw(x[1]) < 0:
                    return False
            elif k == 'skip':
                if any(self.minw(c) < 1 for c in x[1]):
                    return False
            elif k == 'sep':
                we, ws = self.minw(x[1]), self.minw(x[2])
                if we < 0 or ws < 0 or we + ws < 1:
                    return False
            elif k == 'optable':
                wo = self.minw(x)
                for kind, ops in x[2]:
                    for o in ops:
                        w = self.minw(o)
                        if kind in ('prefix', 'postfix') and w < 1:
                            return False
                        if kind in ('left', 'right', 'infix') and (w < 0 or wo < 0 or w + wo < 1):
                            return False
        return True

    def leads(self, e, out):
        """Collect names of rules that may be entered before the position has
        advanced by at least one character past where e starts.  Returns the
        minimal net width of e (so that callers can keep a running sum)."""
        k = e[0]
        if k == 'ref':
            if e[1] in self.rules:
                out.add(e[1])
            return self.minw(e)
        if k == 'super':
            out.add(e[1])
            return self.minw(e)
        if k == 'call':
            out.add(e[1])
            for a in gast.children(e):
                self.leads(a, out)
            return self.minw(e)
        if k in ('seq', 'right', 'left', 'where', 'apply', 'lapply', 'let', 'sep'):
            items = e[1] if k == 'seq' else ([e[2], e[3]] if k == 'let' else [e[1], e[2]])
            run = 0
            for x in items:
                self.leads(x, out)
                run = _add(run, self.minw(x))
                if run >= 1:
                    break
            return self.minw(e)
        for c in gast.children(e):
            self.leads(c, out)
        return self.minw(e)

    def left_recursive(self):
        graph = {}
        for n, (kind, body) in self.rules.items():
            s = set()
            if kind == 'rule':
                self.leads(body, s)
            else:
                run = 0
                for ex in self.member_exprs(body):
                    self.leads(ex, s)
                    run = _add(run, self.minw(ex))
                    if run >= 1:
                        break
            graph[n] = s
        color = {}

        def dfs(u):
            color[u] = 1
            for v in graph.get(u, ()):
                c = color.get(v, 0)
                if c == 1:
                    return True
                if c == 0 and v in graph and dfs(v):
                    return True
            color[u] = 2
            return False

        return any(color.get(n, 0) == 0 and dfs(n) for n in list(graph))

    def well_formed(self):
        if self.left_recursive():
            return False
        for n, (kind, body) in self.rules.items():
            exprs = [body] if kind == 'rule' else self.member_exprs(body)
            for ex in exprs:
                if not self.repetition_ok(ex):
                    return False
        return True


def well_formed(grammars):
    gs = [grammars] if isinstance(grammars, dict) else grammars
    if any(gast.bare_py_in_ctor(G) for G in gs):
        return False
    return Analysis(grammars).well_formed()


# ---------------------------------------------------------------------------
# inputs

def all_strings(alphabet, maxlen, minlen=0):
    for n in range(minlen, maxlen + 1):
        for tup in itertools.product(alphabet, repeat=n):
            yield ''.join(tup)


def near_misses(s, alphabet):
    out = set()
    for i in range(len(s)):
        out.add(s[:i] + s[i + 1:])
        out.add(s[:i] + s[i] + s[i:])
        for c in alphabet:
            out.add(s[:i] + c + s[i + 1:])
    for i in range(len(s) + 1):
        out.add(s[:i])
    out.discard(s)
    return sorted(out)


# ---------------------------------------------------------------------------
# enumeration of core-expression shapes (C01 and friends)

S = lambda s: ('str', s)


def text_leaves():
    """Leaf set chosen to exercise every static flag value."""
    return [
        ('str', 'a'), ('str', 'ab'), ('str', ''), ('istr', 'a'),
        ('re', 'a+', False), ('re', 'a?', False), ('re', 'b', True),
        ('ref', 'Ra'), ('ref', 'Rab'), ('ref', 'Rn'), ('fail', None), ('seq', []),
        # the same pattern text as "a"i / /b/i with the other case flag (one grammar, two matchers)
        ('re', 'a', False), ('re', 'b', False),
    ]


TEXT_LEAF_RULES = {
    'Ra': ('str', 'a'),
    'Rab': ('seq', [('str', 'a'), ('str', 'b')]),     # fails after consuming
    'Rn': ('opt', ('str', 'b')),                      # nullable
}


def bytes_leaves():
    return [
        ('bstr', b'a'), ('bstr', b'ab'), ('bstr', b''), ('bistr', b'a'), ('byte', 0x61),
        ('bre', 'a+', False), ('bre', 'a?', False),
        ('ref', 'Ra'), ('ref', 'Rab'), ('ref', 'Rn'), ('fail', None),
        ('bre', 'a', False), ('bre', 'a', True),
    ]


BYTES_LEAF_RULES = {
    'Ra': ('byte', 0x61),
    'Rab': ('seq', [('bstr', b'a'), ('byte', 0x62)]),
    'Rn': ('opt', ('bstr', b'b')),
}

UNARY = ['opt', 'star', 'plus', 'rep2', 'rep12', 'rep2_', 'expect', 'expectnot', 'skip1',
         'backright', 'failalt', 'seq1']
BINARY = ['seq2', 'right', 'left', 'alt2', 'longest2', 'sep', 'septrail', 'skip2']


def make_unary(form, c, bytes_mode=False):
    if form == 'opt':
        return ('opt', c)
    if form == 'star':
        return ('star', c)
    if form == 'plus':
        return ('plus', c)
    if form == 'rep2':
        return ('rep', c, 2, 2)
    if form == 'rep12':
        return ('rep', c, 1, 2)
    if form == 'rep2_':
        return ('rep', c, 2, None)
    if form == 'expect':
        return ('expect', c)
    if form == 'expectnot':
        return ('expectnot', c)
    if form == 'skip1':
        return ('skip', [c])
    if form == 'backright':
        any1 = ('bre', '[ab]', False) if bytes_mode else ('re', '[ab]', False)
        return ('seq', [any1, ('right', ('backtrack', 1), c)])
    if form == 'failalt':
        return ('alt', [('fail', 'nope'), c])
    if form == 'seq1':
        return ('seq', [c])
    raise ValueError(form)


def make_binary(form, a, b):
    if form == 'seq2':
        return ('seq', [a, b])
    if form == 'right':
        return ('right', a, b)
    if form == 'left':
        return ('left', a, b)
    if form == 'alt2':
        return ('alt', [a, b])
    if form == 'longest2':
        return ('longest', [a, b])
    if form == 'sep':
        return ('sep', a, b, {'_op': '//'})
    if form == 'septrail':
        return ('sep', a, b, {'allow_trailer': True, '_op': '/?'})
    if form == 'skip2':
        return ('skip', [a, b])
    raise ValueError(form)


def depth1(leaves, bytes_mode=False):
    for f in UNARY:
        for c in leaves:
            yield (f,), make_unary(f, c, bytes_mode)
    for f in BINARY:
        for a in leaves:
            for b in leaves:
                yield (f,), make_binary(f, a, b)


def depth2(leaves, reduced):
    """parent form x slot x child composite (over `reduced` leaves) x other slot leaf."""
    kids = []
    for f in UNARY:
        for c in reduced:
            kids.append((f, make_unary(f, c)))
    for f in BINARY:
        for a in reduced:
            for b in reduced:
                kids.append((f, make_binary(f, a, b)))
    for pf in UNARY:
        for cf, c in kids:
            yield (pf, cf), make_unary(pf, c)
    for pf in BINARY:
        for cf, c in kids:
            for other in reduced:
                yield (pf, cf, 0), make_binary(pf, c, other)
                yield (pf, cf, 1), make_binary(pf, other, c)


def continuation_contexts(x, bytes_mode=False):
    """Contexts in which a trace left by a failed attempt becomes observable."""
    if bytes_mode:
        a, ab, rest = ('bstr', b'a'), ('bstr', b'ab'), ('bre', '[ab]*', False)
    else:
        a, ab, rest = ('str', 'a'), ('str', 'ab'), ('re', '[ab]*', False)
    yield 'alone', x
    yield 'alt-rest', ('alt', [('seq', [x, ('fail', None)]), rest])
    yield 'alt', ('alt', [x, ab, rest])
    yield 'seq-rest', ('seq', [x, rest])
    yield 'opt-rest', ('seq', [('opt', x), rest])
    yield 'expect-rest', ('seq', [('expect', x), rest])
    yield 'not-rest', ('seq', [('expectnot', x), rest])


def shape_grammar(x, leaf_rules, extra_rules=None):
    rules = {'start': x}
    used = {r[1] for r in gast.walk(x) if r[0] == 'ref'}
    for n, body in leaf_rules.items():
        if n in used:
            rules[n] = body
    if extra_rules:
        rules.update(extra_rules)
    return gast.simple_grammar(rules)


# ---------------------------------------------------------------------------
# random multi-rule grammars

class RandomGrammar:
    """Seeded random well-formed grammars over the core constructs.

    Rules R0..Rk; R0 is the start rule.  A reference to Rj is allowed in an
    unguarded (possibly leading) position only when j > i (so the leading-call
    graph is a DAG); after a consuming element any rule may be referenced."""

    def __init__(self, rng, nrules=None, maxdepth=4, bytes_mode=False, classes=False,
                 alphabet='ab', features=()):
        self.rng = rng
        self.n = nrules or rng.randint(2, 5)
        self.maxdepth = maxdepth
        self.bytes_mode = bytes_mode
        self.alphabet = alphabet
        self.features = set(features)

    def lit(self, consuming=True):
        r = self.rng
        al = self.alphabet
        if self.bytes_mode:
            opts = [('bstr', al[0].encode()), ('bstr', al[:2].encode()), ('byte', ord(al[1])),
                    ('bre', '[%s]' % al, False), ('bre', al[0] + '+', False), ('bistr', al[0].encode()),
                    ('bre', al[0], False), ('bre', al[0] + '+', True)]
            if not consuming:
                opts += [('bstr', b''), ('bre', al[0] + '?', False), ('bre', al[1] + '*', False)]
        else:
            opts = [('str', al[0]), ('str', al[1]), ('str', al[:2]), ('str', al[1] + al[0]),
                    ('re', '[%s]' % al, False), ('re', al[0] + '+', False), ('istr', al[0]),
                    ('re', al[1], True), ('re', al[0], False), ('re', al[1], False), ('re', al[0] + '+', True)]
            if not consuming:
                opts += [('str', ''), ('re', al[0] + '?', False), ('re', al[1] + '*', False)]
        return r.choice(opts)

    def expr(self, i, depth, consuming, guarded):
        """consuming: result must not be nullable.  guarded: a consuming prefix precedes."""
        r = self.rng
        if depth <= 0 or r.random() < 0.18:
            if r.random() < 0.45:
                # reference
                lo = 0 if guarded else i + 1
                cands = [j for j in range(lo, self.n) if (not consuming or self.consuming_rule[j])]
                if cands:
                    return ('ref', 'R%d' % r.choice(cands))
            return self.lit(consuming)
        forms = ['seq', 'seq', 'alt', 'alt', 'right', 'left', 'plus', 'rep', 'longest', 'sep1']
        if not consuming:
            forms += ['opt', 'star', 'expect', 'expectnot', 'skip', 'sep', 'rep0', 'opt', 'star']
        if guarded and 'backtrack' in self.features:
            forms.append('back')
        f = r.choice(forms)
        d = depth - 1
        if f == 'seq':
            n = r.randint(1, 3)
            items = []
            g = guarded
            need = r.randrange(n) if consuming else -1
            for idx in range(n):
                c = (idx == need)
                x = self.expr(i, d, c, g)
                items.append(x)
                if c or self.quick_nonnull(x):
                    g = True
            return ('seq', items)
        if f in ('right', 'left'):
            first_c = consuming and r.random() < 0.5
            a = self.expr(i, d, first_c, guarded)
            b = self.expr(i, d, consuming and not first_c, guarded or first_c or self.quick_nonnull(a))
            return (f, a, b)
        if f in ('alt', 'longest'):
            n = r.randint(2, 3)
            items = [self.expr(i, d, consuming, guarded) for _ in range(n)]
            if f == 'alt' and r.random() < 0.15:
                items.insert(r.randrange(len(items) + 1), ('fail', None))
            return (f, items)
        if f == 'plus':
            return ('plus', self.expr(i, d, True, guarded))
        if f == 'star':
            return ('star', self.expr(i, d, True, guarded))
        if f == 'opt':
            return ('opt', self.expr(i, d, False, guarded))
        if f == 'rep':
            m = r.randint(1, 3)
            n = r.choice([m, m + 1, None])
            return ('rep', self.expr(i, d, True, guarded), m, n)
        if f == 'rep0':
            n = r.choice([1, 2, None])
            return ('rep', self.expr(i, d, True, guarded), r.choice([None, 0]), n)
        if f == 'expect':
            return ('expect', self.expr(i, d, False, guarded))
        if f == 'expectnot':
            return ('expectnot', self.expr(i, d, False, guarded))
        if f == 'skip':
            return ('skip', [self.expr(i, d, True, guarded) for _ in range(r.randint(1, 2))])
        if f in ('sep', 'sep1'):
            o = {}
            if r.random() < 0.5:
                o['allow_trailer'] = True
            if f == 'sep1':
                o['allow_empty'] = False
            elif r.random() < 0.2:
                o['allow_empty'] = False
            if r.random() < 0.25:
                o['discard_separators'] = False
            if o.get('allow_trailer') and r.random() < 0.2:
                o['require_separator'] = True
            if set(o) <= {'allow_trailer'} and r.random() < 0.7:
                o['_op'] = '/?' if o.get('allow_trailer') else '//'
            return ('sep', self.expr(i, d, True, guarded), self.expr(i, d, True, True), o)
        if f == 'back':
            return ('right', ('backtrack', 1), self.expr(i, d, True, False))
        raise ValueError(f)

    def quick_nonnull(self, x):
        k = x[0]
        if k in ('str', 'bstr', 'istr', 'bistr'):
            return len(x[1]) > 0
        if k == 'byte':
            return True
        if k in ('re', 'bre'):
            return regex_min_width(x[1], k == 'bre') > 0
        return False

    def grammar(self):
        r = self.rng
        # decide which rules are guaranteed consuming (so that they can sit under repetition)
        self.consuming_rule = [r.random() < 0.7 for _ in range(self.n)]
        rules = {}
        for i in range(self.n):
            name = 'start' if i == 0 else 'R%d' % i
            rules[name] = self.expr(i, r.randint(1, self.maxdepth), self.consuming_rule[i], False)
        # rename R0 references
        def fix(e):
            if e[0] == 'ref' and e[1] == 'R0':
                return ('ref', 'start')
            return map_children(e, fix)
        rules = {n: fix(b) for n, b in rules.items()}
        return gast.simple_grammar(rules)


def map_children(e, f):
    k = e[0]
    slots = gast.CHILD_SLOTS.get(k)
    if slots == 'list1':
        return (k, [f(x) for x in e[1]]) + tuple(e[2:])
    if slots:
        lst = list(e)
        for i in slots:
            lst[i] = f(lst[i])
        return tuple(lst)
    if k == 'call':
        return (k, e[1], [('kw', a[1], f(a[2])) if (isinstance(a, tuple) and a and a[0] == 'kw') else f(a)
                          for a in e[2]])
    if k == 'optable':
        return (k, f(e[1]), [(kind, [f(o) for o in ops]) for kind, ops in e[2]])
    return e


def random_inputs(rng, alphabet, n, maxlen):
    out = []
    for _ in range(n):
        ln = rng.randint(0, maxlen)
        out.append(''.join(rng.choice(alphabet) for _ in range(ln)))
    return out


# ---------------------------------------------------------------------------
# sentence sampler: random derivations, used only to seed input search

class Sampler:
    def __init__(self, rng, grammars, ignorable=''):
        if isinstance(grammars, dict):
            grammars = [grammars]
        self.rng = rng
        self.an = Analysis(grammars)
        self.ignorable = ignorable
        self._re_cache = {}

    def regex_sample(self, pat, icase):
        key = (pat, icase)
        if key not in self._re_cache:
            import string
            try:
                rx = re.compile(pat, re.I if icase else 0)
            except re.error:
                self._re_cache[key] = ['']
                return ['']
            cands = []
            pool = string.ascii_lowercase[:6] + string.digits[:4] + string.ascii_uppercase[:2] + ' \n()[]{}<>!?,;:+-*/.#_~'
            for c in [''] + list(pool):
                if rx.fullmatch(c):
                    cands.append(c)
            singles = [c for c in cands if c]
            for a in singles[:4]:
                for b2 in singles[:4]:
                    if rx.fullmatch(a + b2):
                        cands.append(a + b2)
            self._re_cache[key] = cands or ['']
        return self._re_cache[key]

    def gap(self):
        if self.ignorable and self.rng.random() < 0.3:
            return ''.join(self.rng.choice(self.ignorable) for _ in range(self.rng.choice([1, 1, 2])))
        return ''

    def sample(self, e, depth, env=None):
        r = self.rng
        k = e[0]
        env = env or {}
        if k in ('str', 'istr'):
            return e[1] + self.gap()
        if k in ('bstr', 'bistr'):
            return e[1].decode('latin-1') + self.gap()
        if k == 'byte':
            return chr(e[1]) + self.gap()
        if k in ('re', 'bre'):
            c = self.regex_sample(e[1], e[2])
            return r.choice(c) + self.gap()
        if k in ('py', 'num', 'expect', 'expectnot', 'fail', 'backtrack'):
            return ''
        if k == 'ref':
            if e[1] in env:
                return self.sample(env[e[1]], depth - 1, {})
            return self.rule(e[1], depth - 1)
        if k == 'super':
            return self.rule(e[1], depth - 1)
        if k == 'call':
            if e[1] not in self.an.rules:
                return ''
            params = self.an.params.get(e[1]) or []
            env2 = {}
            pos = list(params)
            for a in e[2]:
                if isinstance(a, tuple) and a and a[0] == 'kw':
                    env2[a[1]] = a[2]
                    if a[1] in pos:
                        pos.remove(a[1])
                elif pos:
                    env2[pos.pop(0)] = a
            return self.rule(e[1], depth - 1, env2)
        if k == 'seq':
            return ''.join(self.sample(x, depth, env) for x in e[1])
        if k in ('right', 'left', 'where', 'apply', 'lapply'):
            return self.sample(e[1], depth, env) + self.sample(e[2], depth, env)
        if k == 'let':
            return self.sample(e[2], depth, env) + self.sample(e[3], depth, env)
        if k in ('alt', 'longest'):
            items = [x for x in e[1] if x[0] != 'fail'] or e[1]
            if depth <= 0:
                items = sorted(items, key=lambda x: self.an.minw(x))[:1]
            return self.sample(r.choice(items), depth, env)
        if k == 'opt':
            return self.sample(e[1], depth, env) if depth > 0 and r.random() < 0.6 else ''
        if k in ('star', 'plus'):
            n = r.choice([0, 1, 1, 2, 3]) if depth > 0 else 0
            if k == 'plus':
                n = max(1, n)
            return ''.join(self.sample(e[1], depth - 1, env) for _ in range(n))
        if k == 'rep':
            lo = e[2] if isinstance(e[2], int) else 0
            hi = e[3] if isinstance(e[3], int) else lo + 2
            n = r.randint(lo, max(lo, hi))
            return ''.join(self.sample(e[1], depth - 1, env) for _ in range(n))
        if k == 'skip':
            return ''.join(self.sample(r.choice(e[1]), depth - 1, env) for _ in range(r.choice([0, 1, 2]))) if e[1] else ''
        if k == 'sep':
            n = r.choice([0, 1, 2, 3]) if depth > 0 else 0
            if not e[3].get('allow_empty', True):
                n = max(1, n)
            parts = []
            for i in range(n):
                if i:
                    parts.append(self.sample(e[2], depth - 1, env))
                parts.append(self.sample(e[1], depth - 1, env))
            if n and e[3].get('allow_trailer') and r.random() < 0.4:
                parts.append(self.sample(e[2], depth - 1, env))
            return ''.join(parts)
        if k == 'optable':
            rows = e[2]
            pre = [o for kind, ops in rows if kind == 'prefix' for o in ops]
            post = [o for kind, ops in rows if kind == 'postfix' for o in ops]
            inf = [o for kind, ops in rows if kind in ('left', 'right', 'infix') for o in ops]
            mix = [o for kind, ops in rows if kind == 'mixfix' for o in ops]
            out = []
            for i in range(r.randint(1, 3) if depth > 0 else 1):
                if i:
                    if not inf:
                        break
                    out.append(self.sample(r.choice(inf), depth - 1, env))
                if pre and r.random() < 0.3:
                    out.append(self.sample(r.choice(pre), depth - 1, env))
                if mix and depth > 1 and r.random() < 0.3:
                    out.append(self.sample(r.choice(mix), depth - 2, env))
                else:
                    out.append(self.sample(e[1], depth - 1, env))
                if post and r.random() < 0.3:
                    out.append(self.sample(r.choice(post), depth - 1, env))
            return ''.join(out)
        return ''

    def rule(self, name, depth, env=None):
        if name not in self.an.rules or depth < -6:
            return ''
        kind, body = self.an.rules[name]
        if kind == 'rule':
            return self.sample(body, depth, env)
        return ''.join(self.sample(ex, depth, env) for ex in self.an.member_exprs(body))

    def sentences(self, entry, n, depth=5):
        out = []
        for _ in range(n):
            try:
                out.append(self.rule(entry, self.rng.randint(1, depth)))
            except RecursionError:
                pass
        return out


def literal_zoo():
    """Literals whose spelling needs escaping or whose matching is locale / case sensitive:
    (tag, expr, alphabet of characters worth trying)."""
    return [
        ('newline', ('str', 'a\nb'), 'ab\n'),
        ('tab-cr', ('str', '\t\r'), '\t\ra'),
        ('dquote', ('str', 'a"b'), 'ab"'),
        ('squote', ('str', "a'b"), "ab'"),
        ('both-quotes', ('str', '\'"'), '\'"a'),
        ('backslash', ('str', 'a\\b'), 'ab\\'),
        ('backtick', ('str', '`a`'), '`a'),
        ('slash', ('str', '/a/'), '/a'),
        ('hash', ('str', '#a'), '#a'),
        ('brackets', ('str', '[]{}()'), '[]{}()'),
        ('unicode', ('str', 'é€'), 'é€e'),
        ('astral', ('str', '😀a'), '😀a'),
        ('icase-punct', ('istr', 'a+b'), 'ab+AB'),
        ('icase-unicode', ('istr', 'é'), 'éÉe'),
        ('icase-sharp-s', ('istr', 'ss'), 'sSß'),
        ('regex-slash', ('re', 'a/b', False), 'ab/'),
        ('regex-escaped-slash', ('re', 'a\\/b', False), 'ab/'),
        ('regex-class-slash', ('re', '[/a]+', False), '/ab'),
        ('regex-backslash-d', ('re', '\\d+', False), '0a1'),
        ('regex-inline-flag', ('re', '(?i)ab', False), 'abAB'),
        ('regex-dot', ('re', 'a.b', False), 'ab\n'),
        ('regex-dotall', ('re', '(?s)a.b', False), 'ab\n'),
        ('regex-multiline-anchor', ('re', '(?m)^a', False), 'a\nb'),
        ('regex-alternation', ('re', 'a|ab', False), 'ab'),
        ('regex-icase-class', ('re', '[a-c]+', True), 'aBcd'),
        ('regex-quote', ('re', '"[^"]*"', False), '"a'),
        ('regex-unicode', ('re', '[é€]+', False), 'é€e'),
        ('regex-backtick', ('re', '`+', False), '`a'),
        # patterns that match the empty string somewhere but not everywhere
        ('regex-eoi', ('re', '$', False), 'ab\n'),
        ('regex-abs-end', ('re', '\\Z', False), 'ab\n'),
        ('regex-neg-lookahead', ('re', '(?!a)', False), 'ab'),
        ('regex-lookahead', ('re', '(?=a)', False), 'ab'),
        ('regex-star-eoi', ('re', 'a*$', False), 'ab'),
        ('regex-opt-lookahead', ('re', 'a?(?=b)', False), 'ab'),
    ]


def bytes_zoo():
    return [
        ('nul', ('bstr', b'\x00a'), '\x00a'),
        ('high', ('bstr', b'\xff\x80'), '\xff\x80a'),
        ('quotes', ('bstr', b'"\''), '"\'a'),
        ('backslash', ('bstr', b'a\\'), 'a\\'),
        ('icase', ('bistr', b'aB'), 'abAB'),
        ('byte-0', ('byte', 0), '\x00a'),
        ('byte-ff', ('byte', 255), '\xffa'),
        ('regex-high', ('bre', '[\\x80-\\xff]+', False), '\x80\xffa'),
        ('regex-dot', ('bre', 'a.', False), 'a\n\xff'),
    ]
