"""sys.monitoring probes on the code objects of one emitted module.

RuleEvalProbe   PY_START on every parameterless `_try_<rule>` function; records
                (parse call id, rule, position) -> number of body evaluations.
                The parse call id comes from a wrapper bound over the module's
                global `_run` (emitted code looks it up by name at call time).
"""
import sys
import threading
import types

TOOL_RULES = 2
TOOL_DEPTH = 3
TOOL_YIELD = 1


def _claim(tool, name):
    mon = sys.monitoring
    try:
        mon.use_tool_id(tool, name)
    except ValueError:
        pass


def rule_functions(module):
    """{code object: rule name} for parameterless rule/class parse functions."""
    out = {}
    for name, f in vars(module).items():
        if not name.startswith('_try_') or not isinstance(f, types.FunctionType):
            continue
        co = f.__code__
        args = co.co_varnames[:co.co_argcount]
        if args in (('_text', '_pos'), ('_ctx', '_text', '_pos')):
            out[co] = name[len('_try_'):]
    return out


class RuleEvalProbe:
    def __init__(self, modules):
        if not isinstance(modules, (list, tuple)):
            modules = [modules]
        self.modules = modules
        self.codes = {}
        for m in modules:
            self.codes.update(rule_functions(m))
        self.local = threading.local()
        self.calls = {}            # call id -> {(rule, pos): count}
        self.next_id = 0
        self.lock = threading.Lock()
        self.run_wrapped = 0
        self.orphan_events = 0
        self._saved_run = []
        self.active = False

    # -- parse call ids through the module-global `_run`
    def _wrap_run(self, module):
        orig = module.__dict__.get('_run')
        if orig is None:
            return
        probe = self

        def _run(*a, **kw):
            with probe.lock:
                probe.next_id += 1
                cid = probe.next_id
                probe.calls[cid] = {}
            st = getattr(probe.local, 'stack', None)
            if st is None:
                st = probe.local.stack = []
            st.append(cid)
            probe.run_wrapped += 1
            try:
                return orig(*a, **kw)
            finally:
                st.pop()

        _run.__wrapped__ = orig
        self._saved_run.append((module, orig))
        module.__dict__['_run'] = _run

    def start(self):
        mon = sys.monitoring
        _claim(TOOL_RULES, 'verif-rules')
        for m in self.modules:
            self._wrap_run(m)
        mon.register_callback(TOOL_RULES, mon.events.PY_START, self._on_start)
        for co in self.codes:
            mon.set_local_events(TOOL_RULES, co, mon.events.PY_START)
        self.active = True

    def stop(self):
        mon = sys.monitoring
        for co in self.codes:
            try:
                mon.set_local_events(TOOL_RULES, co, 0)
            except Exception:
                pass
        mon.register_callback(TOOL_RULES, mon.events.PY_START, None)
        for module, orig in self._saved_run:
            module.__dict__['_run'] = orig
        self._saved_run = []
        try:
            mon.free_tool_id(TOOL_RULES)
        except Exception:
            pass
        self.active = False

    def _on_start(self, code, offset):
        name = self.codes.get(code)
        if name is None:
            return
        try:
            pos = sys._getframe(1).f_locals['_pos']
        except Exception:
            self.orphan_events += 1
            return
        st = getattr(self.local, 'stack', None)
        if not st:
            self.orphan_events += 1
            return
        d = self.calls[st[-1]]
        key = (name, pos)
        d[key] = d.get(key, 0) + 1

    def take(self):
        """Returns and clears the per-call tables."""
        with self.lock:
            out = self.calls
            self.calls = {}
        return out


class DepthProbe:
    """High-water mark of the Python frame depth reached inside emitted code."""

    def __init__(self, module):
        self.codes = set()
        for name, f in vars(module).items():
            if isinstance(f, types.FunctionType) and f.__module__ is None or isinstance(f, types.FunctionType):
                if getattr(f, '__globals__', None) is module.__dict__:
                    self.codes.add(f.__code__)
        self.max_depth = 0
        self.events = 0

    def start(self):
        mon = sys.monitoring
        _claim(TOOL_DEPTH, 'verif-depth')
        mon.register_callback(TOOL_DEPTH, mon.events.PY_START, self._on)
        for co in self.codes:
            mon.set_local_events(TOOL_DEPTH, co, mon.events.PY_START)

    def stop(self):
        mon = sys.monitoring
        for co in self.codes:
            try:
                mon.set_local_events(TOOL_DEPTH, co, 0)
            except Exception:
                pass
        mon.register_callback(TOOL_DEPTH, mon.events.PY_START, None)
        try:
            mon.free_tool_id(TOOL_DEPTH)
        except Exception:
            pass

    def _on(self, code, offset):
        self.events += 1
        d = 0
        f = sys._getframe(1)
        while f is not None:
            d += 1
            f = f.f_back
        if d > self.max_depth:
            self.max_depth = d
