"""Runtime contracts on the real runtime functions of an emitted module.

Backend: icontract (installed from the offline wheelhouse into .deps); when it
cannot be imported a small shim with the same call shape is used.  Contracts
are attached by rebinding the emitted module's globals (the emitted code looks
its helpers up by name at call time).  Every wrapper counts its evaluations: a
zero count makes the monitor inconclusive."""
import functools

try:
    import icontract
    BACKEND = 'icontract ' + getattr(icontract, '__version__', '?')
except Exception:                                           # pragma: no cover
    icontract = None
    BACKEND = 'shim'


class ContractBroken(Exception):
    pass


class Counter:
    def __init__(self):
        self.n = {}

    def hit(self, name):
        self.n[name] = self.n.get(name, 0) + 1


def ensure(cond, name, counter):
    """Decorator: post-condition cond(**args, result=...) -> True or a string/False."""
    def deco(fn):
        import inspect
        sig = inspect.signature(fn)

        if icontract is not None:
            problems = []

            def checked(*a, **kw):
                return True

            # icontract needs a condition whose parameter names match the function's; build one
            # generically through a closure over bound arguments
            @functools.wraps(fn)
            def wrapper(*a, **kw):
                result = fn(*a, **kw)
                ba = sig.bind(*a, **kw)
                ba.apply_defaults()
                counter.hit(name)
                verdict = cond(result=result, **ba.arguments)
                _icontract_assert(verdict, name)
                return result
            return wrapper

        @functools.wraps(fn)
        def wrapper(*a, **kw):
            result = fn(*a, **kw)
            ba = sig.bind(*a, **kw)
            ba.apply_defaults()
            counter.hit(name)
            verdict = cond(result=result, **ba.arguments)
            if verdict is not True:
                raise ContractBroken('%s: %s' % (name, verdict))
            return result
        return wrapper
    return deco


def _ok(verdict):
    return verdict is True


if icontract is not None:
    @icontract.require(_ok, error=lambda verdict, name: ContractBroken('%s: %s' % (name, verdict)))
    def _icontract_assert(verdict, name):
        return None
else:                                                       # pragma: no cover
    def _icontract_assert(verdict, name):
        if verdict is not True:
            raise ContractBroken('%s: %s' % (name, verdict))


def attach(module, name, cond, counter):
    """Rebind module.<name> with a post-condition.  Returns True when bound."""
    fn = module.__dict__.get(name)
    if fn is None:
        return False
    module.__dict__[name] = ensure(cond, name, counter)(fn)
    return True
