"""Grammar descriptions found in the repository (tests, docs, README, examples)
and workloads that run the repository's own grammars under the model-free
monitors."""
import ast
import glob
import os
import re

from . import observe

_cache = {}


def _grammar_literals_from_python(src):
    out = []
    try:
        tree = ast.parse(src)
    except SyntaxError:
        return out
    for node in ast.walk(tree):
        if isinstance(node, ast.Call) and getattr(node.func, 'id', getattr(node.func, 'attr', None)) == 'Grammar':
            if node.args and isinstance(node.args[0], ast.Constant) and isinstance(node.args[0].value, str):
                out.append(node.args[0].value)
    return out


def repository_descriptions():
    """List of (origin, description) -- deterministic order."""
    if 'descs' in _cache:
        return _cache['descs']
    repo = observe.REPO
    out = []
    files = sorted(glob.glob(os.path.join(repo, 'tests', '*.py')) +
                   glob.glob(os.path.join(repo, 'examples', '*.py')))
    for f in files:
        with open(f) as fh:
            for d in _grammar_literals_from_python(fh.read()):
                out.append((os.path.relpath(f, repo), d))
    mds = sorted([os.path.join(repo, 'README.md')] +
                 glob.glob(os.path.join(repo, 'docs', '**', '*.md'), recursive=True))
    for f in mds:
        with open(f) as fh:
            txt = fh.read()
        for block in re.findall(r'```python\n(.*?)```', txt, re.S):
            for d in _grammar_literals_from_python(block):
                out.append((os.path.relpath(f, repo), d))
        for block in re.findall(r'~~~\n(.*?)~~~', txt, re.S):
            out.append((os.path.relpath(f, repo), block.replace('\\\\', '\\')))
    with open(os.path.join(repo, 'grammar.txt')) as fh:
        out.append(('grammar.txt', fh.read()))
    seen = set()
    uniq = []
    for o, d in out:
        if d not in seen:
            seen.add(d)
            uniq.append((o, d))
    _cache['descs'] = uniq
    return uniq


def corruptions(d, rng, n):
    """Seeded corruptions of a description: delete / insert / replace a character,
    truncate, unbalance brackets."""
    out = []
    if not d:
        return out
    chars = '()[]{}|>*+?/"\'`=:;,\n ax1'
    # characters outside ASCII that Unicode-aware classes (\w \d \s, str.isalpha ...) accept: a letter, a
    # superscript digit, an Arabic-Indic digit, a no-break space, a line separator, a combining accent
    exotic = '\u00e9\u00df\u00b2\u0663\u00a0\u2028\u0301\u03bb'
    for t in range(max(1, n // 2)):
        # inside or right after an identifier / number / blank (where such a class would be at work)
        cands = [i for i in range(len(d)) if d[i].isalnum() or d[i] in '_ ']
        if cands:
            i = rng.choice(cands)
            c = rng.choice(exotic)
            out.append(d[:i + 1] + c + d[i + 1:] if t % 2 == 0 else d[:i] + c + d[i + 1:])
    for _ in range(n):
        k = rng.randrange(5)
        i = rng.randrange(len(d))
        if k == 0:
            out.append(d[:i] + d[i + 1:])
        elif k == 1:
            out.append(d[:i] + rng.choice(chars) + d[i:])
        elif k == 2:
            out.append(d[:i] + rng.choice(chars) + d[i + 1:])
        elif k == 3:
            out.append(d[:i])
        else:
            j = min(len(d), i + rng.randrange(1, 12))
            out.append(d[:i] + d[j:])
    return out


def metagrammar_text():
    with open(os.path.join(observe.REPO, 'grammar.txt')) as fh:
        return fh.read()


def trace_repository_grammars(rec, tracer, quick):
    """Model-free M-trace on the metagrammar (compiled from grammar.txt by the
    working tree) parsing every repository description and corruptions of them."""
    sourcer = observe.load_sourcer()
    r = observe.compile_grammar(metagrammar_text(), include_source=True)
    if r[0] != 'ok':
        rec.violation('metagrammar-compile:%s' % (r[1],), 'Grammar(grammar.txt)', dict(kind='meta'), 'module', r)
        return
    g = r[1]
    tr = tracer.Traced(g, exec_globals={})
    if not tr.ok:
        rec.count('trace_unavailable')
        return
    descs = repository_descriptions()
    ncorr = 2 if quick else 12
    for origin, d in descs:
        variants = [d] + corruptions(d, rec.rng, ncorr)
        for t in variants:
            o = observe.observe(g, t)
            rec.case()
            viol = tr.run(t, None, _repr_outcome(o))
            # parsed trees of the metaparser hold ParsedObjects; compare by repr
            rec.count('trace_events', tr.last_events)
            rec.count('trace_events_repository', tr.last_events)
            if viol == 'mismatch':
                rec.count('trace_discarded')
                continue
            for v in viol[:3]:
                rec.violation('trace:%s' % v[0], 'M-trace on metagrammar',
                              dict(kind='meta-trace', origin=origin, text_repr=repr(t)), 'trace rule', v)
    for k, v in tr.ck.by_class.items():
        rec.count('trace_class_last:%s' % k, v)


def _repr_outcome(o):
    return o.outcome
