"""Executable reference semantics (oracle E1) for sourcer grammar descriptions.

Written from README.md, docs/expressions/separated_list.md, grammar.txt and the
property statements.  Shares no code with sourcer.  `Model.ev(e, p, env, lvl)`
returns None (fail) or (value, end).

The model is evaluated on the harness AST of vlib.gast.  A grammar chain
(base first) models `extends`.
"""
import re

FAIL = None


class ModelBudget(Exception):
    pass


class IllFormed(Exception):
    """The case violates the side conditions of the properties (generator bug)."""


class Obj:
    __slots__ = ('cls', 'fields', 'span')

    def __init__(self, cls, fields, span):
        self.cls, self.fields, self.span = cls, fields, span

    def __repr__(self):
        return '%s(%s)@%s' % (self.cls, ', '.join('%s=%r' % kv for kv in self.fields), self.span)

    # attribute access so inline python of test grammars can say `x.name`
    def __getattr__(self, name):
        for k, v in object.__getattribute__(self, 'fields'):
            if k == name:
                return v
        raise AttributeError(name)

    def __eq__(self, other):
        return (isinstance(other, Obj) and self.cls == other.cls
                and [k for k, _ in self.fields] == [k for k, _ in other.fields]
                and all(a == b for (_, a), (_, b) in zip(self.fields, other.fields)))

    def __hash__(self):
        return hash(self.cls)


class Closure:
    __slots__ = ('e', 'env', 'lvl')

    def __init__(self, e, env, lvl):
        self.e, self.env, self.lvl = e, env, lvl


class LitArg(str):
    """String literal argument: a value and a parser."""
    lvl = None


class BLitArg(bytes):
    lvl = None


class ByteArg(int):
    lvl = None


class Level:
    def __init__(self, G, parent=None, pyglobals=None):
        self.G = G
        self.parent = parent
        self.index = 0 if parent is None else parent.index + 1
        self.rules = {}
        self.order = []
        self.ignore_refs = []
        self.glob = {} if pyglobals is None else pyglobals
        n_anon = 0
        for s in G['stmts']:
            k = s[0]
            if k == 'rule':
                self.rules[s[1]] = ('rule', s[2], s[3])
                self.order.append(s[1])
            elif k == 'bare':
                self.rules['start'] = ('rule', None, s[1])
                self.order.append('start')
            elif k == 'irule':
                self.rules[s[1]] = ('rule', None, s[2])
                self.order.append(s[1])
                self.ignore_refs.append(s[1])
            elif k == 'ignore':
                n_anon += 1
                nm = '_anon%d_%d' % (self.index, n_anon)
                self.rules[nm] = ('rule', None, s[1])
                self.order.append(nm)
                self.ignore_refs.append(nm)
            elif k == 'class':
                self.rules[s[1]] = ('class', s[2], s[3])
                self.order.append(s[1])
            elif k in ('pysection', 'pyexpr'):
                exec(s[1], self.glob)
        self.own_ignore = bool(self.ignore_refs)
        self.super_has_ignore = bool(parent and parent.has_ignore)
        self.has_ignore = self.own_ignore or self.super_has_ignore
        self.start = None
        for nm in self.order:
            if nm.lower() == 'start':
                self.start = nm
                break
        if self.start is not None and self.start in self.ignore_refs:
            raise IllFormed('start rule is ignored')
        # without a rule called start a grammar starts with its first rule -- the first one that is a
        # rule of the language, not an ignore declaration.  (What a DERIVED grammar without any rule
        # called start in its chain starts with is not settled by the statements: never generated.)
        self.named_start = self.start is not None
        if self.start is None and parent is None:
            for nm in self.order:
                if nm not in self.ignore_refs:
                    self.start = nm
                    break


def build_chain(grammars):
    lv = None
    out = []
    for G in grammars:
        lv = Level(G, lv)
        out.append(lv)
    return out


class Model:
    def __init__(self, chain, text, budget=200000, late_ignore=True):
        if isinstance(chain, dict):
            chain = build_chain([chain])
        self.chain = chain
        self.ctx = chain[-1]
        self.t = text
        self.bytes_mode = isinstance(text, (bytes, bytearray))
        self.steps = 0
        self.budget = budget
        self.M = 0              # farthest successful literal end
        self.undo = 0           # situations needing a checkpoint restore
        self.skips = []         # (from, to) runs actually skipped, to > from
        self.spans = []
        self.memo = {}
        self.rule_evals = 0
        self.memo_hits = 0
        self.late_ignore = late_ignore
        self._re = {}
        # operator tables: 'statement' = a longer infix operator wins over a postfix operator at the same
        # place (C02 as stated); 'code' = postfix operators are always read first (what sourcer does; only
        # used to attribute a disagreement to that known mechanism)
        self.optable_reading = 'statement'
        self.shadow_events = 0

    # -- lookup -----------------------------------------------------------
    def lookup(self, name, from_level):
        lv = from_level
        while lv is not None:
            if name in lv.rules:
                return lv, lv.rules[name]
            lv = lv.parent
        raise IllFormed('unknown rule %r' % name)

    def entry_name(self):
        lv = self.ctx
        while lv is not None:
            if lv.start is not None and (lv.named_start or self.ctx.parent is None):
                return lv.start
            lv = lv.parent
        raise IllFormed('no rule called start anywhere in the chain')

    # -- ignore -----------------------------------------------------------
    def ignore_level(self, lit_level):
        """Level whose _ignored rule a literal of lit_level uses, or None."""
        if not lit_level.has_ignore:
            return None
        lv = self.ctx if self.late_ignore else lit_level
        while lv is not None and not lv.own_ignore:
            lv = lv.parent
        return lv

    def skip_from(self, p, iglv):
        if iglv is None:
            return p
        key = ('_ign', iglv.index, p)
        if key in self.memo:
            return self.memo[key]
        q = p
        while True:
            moved = False
            for nm in iglv.ignore_refs:
                r = self.call_rule(nm, iglv, q)
                if r is not FAIL:
                    if r[1] == q:
                        raise IllFormed('ignore pattern matched without consuming')
                    q = r[1]
                    moved = True
                    break
            if moved:
                continue
            if iglv.super_has_ignore:
                sup = iglv.parent
                while sup is not None and not sup.own_ignore:
                    sup = sup.parent
                q2 = self.skip_from(q, sup)
                if q2 != q:
                    q = q2
                    continue
            break
        self.memo[key] = q
        return q

    def lit_end(self, p, q, lvl):
        """A literal matched text[p:q]; apply ignore skipping; record."""
        iglv = self.ignore_level(lvl)
        e = self.skip_from(q, iglv) if iglv is not None else q
        if e > q:
            self.skips.append((q, e))
        if e > self.M:
            self.M = e
        return e

    # -- rules ------------------------------------------------------------
    def call_rule(self, name, from_level, p):
        lv, (kind, params, body) = self.lookup(name, from_level)
        if params is not None:
            raise IllFormed('parameterised rule %s referenced without arguments' % name)
        key = (lv.index, name, p)
        if key in self.memo:
            self.memo_hits += 1
            return self.memo[key]
        self.rule_evals += 1
        r = self.rule_body(name, lv, kind, body, p, {})
        self.memo[key] = r
        return r

    def rule_body(self, name, lv, kind, body, p, env):
        lead = lv.has_ignore and lv.start == name
        if kind == 'rule':
            q = p
            if lead:
                q = self.skip_lead(p, lv)
            return self.ev(body, q, env, lv)
        # class
        env = dict(env)
        fields = []
        q = p
        first = True
        for m in body:
            if first and lead:
                q = self.skip_lead(q, lv)
            first = False
            mk = m[0]
            if mk == 'requires':
                if not self.pyeval(m[1], env, lv):
                    if q != p:
                        self.undo += 1
                    return FAIL
                continue
            ex = m[2] if mk in ('field', 'let') else m[1]
            r = self.ev(ex, q, env, lv)
            if r is FAIL:
                if q != p:
                    self.undo += 1
                return FAIL
            q = r[1]
            if mk in ('field', 'let'):
                env[m[1]] = r[0]
            if mk == 'field':
                fields.append((m[1], r[0]))
        o = Obj(name, fields, (p, q))
        self.spans.append(o)
        return (o, q)

    def skip_lead(self, p, lv):
        iglv = self.ignore_level(lv)
        q = self.skip_from(p, iglv)
        if q > p:
            self.skips.append((p, q))
        return q

    # -- python -----------------------------------------------------------
    def pyeval(self, src, env, lvl):
        g = dict(lvl.glob)
        for k, v in env.items():
            if isinstance(v, Closure):
                continue
            g[k] = v
        return eval(src, g)

    def bound(self, b, env, lvl):
        if b is None or isinstance(b, int):
            return b
        if b[0] == 'name':
            if b[1] in env:
                v = env[b[1]]
            else:
                v = lvl.glob[b[1]]
            return v
        if b[0] == 'py':
            return self.pyeval(b[1], env, lvl)
        raise ValueError(b)

    def rx(self, pat, icase, binary):
        key = (pat, icase, binary)
        r = self._re.get(key)
        if r is None:
            r = re.compile(pat.encode('ascii') if binary else pat, re.IGNORECASE if icase else 0)
            self._re[key] = r
        return r

    # -- expressions ------------------------------------------------------
    def ev(self, e, p, env, lvl):
        self.steps += 1
        if self.steps > self.budget:
            raise ModelBudget()
        t = self.t
        k = e[0]
        if k == 'str' or k == 'bstr':
            s = e[1]
            if len(s) == 0:
                # the empty literal always matches -- and, like every matched literal, is followed by
                # a skip of ignorable text
                return (s if k == 'bstr' else '', self.lit_end(p, p, lvl))
            if t[p:p + len(s)] == s:
                return (s, self.lit_end(p, p + len(s), lvl))
            return FAIL
        if k == 'istr' or k == 'bistr':
            s = e[1]
            seg = t[p:p + len(s)]
            m = self.rx(re.escape(s if k == 'istr' else s.decode('latin-1')), True, k == 'bistr').match(t, p)
            if m:
                return (m.group(0), self.lit_end(p, m.end(), lvl))
            return FAIL
        if k == 're' or k == 'bre':
            m = self.rx(e[1], e[2], k == 'bre').match(t, p)
            if m:
                return (m.group(0), self.lit_end(p, m.end(), lvl))
            return FAIL
        if k == 'byte':
            if p < len(t) and t[p] == e[1]:
                return (e[1], self.lit_end(p, p + 1, lvl))
            return FAIL
        if k == 'py':
            return (self.pyeval(e[1], env, lvl), p)
        if k == 'num':
            return (eval(e[1]), p)
        if k == 'ref':
            nm = e[1]
            if nm in env:
                return self.run_value(env[nm], p)
            return self.call_rule(nm, self.ctx, p)
        if k == 'super':
            if lvl.parent is None:
                raise IllFormed('super without parent')
            return self.call_rule(e[1], lvl.parent, p)
        if k == 'call':
            return self.call(e, p, env, lvl)
        if k == 'seq':
            out = []
            q = p
            for x in e[1]:
                r = self.ev(x, q, env, lvl)
                if r is FAIL:
                    if q != p:
                        self.undo += 1
                    return FAIL
                out.append(r[0])
                q = r[1]
            return (out, q)
        if k == 'right' or k == 'left':
            a = self.ev(e[1], p, env, lvl)
            if a is FAIL:
                return FAIL
            b = self.ev(e[2], a[1], env, lvl)
            if b is FAIL:
                if a[1] != p:
                    self.undo += 1
                return FAIL
            return ((b[0] if k == 'right' else a[0]), b[1])
        if k == 'alt':
            for x in e[1]:
                r = self.ev(x, p, env, lvl)
                if r is not FAIL:
                    return r
            return FAIL
        if k == 'opt':
            r = self.ev(e[1], p, env, lvl)
            return r if r is not FAIL else (None, p)
        if k in ('star', 'plus', 'rep'):
            if k == 'star':
                m, n = 0, None
            elif k == 'plus':
                m, n = 1, None
            else:
                m = self.bound(e[2], env, lvl) or 0
                n = self.bound(e[3], env, lvl)
                if n is not None and m > n:
                    # the constructor rejects static m > n; at run time it is an
                    # ill-formed program outside the property
                    raise IllFormed('lower bound above upper bound')
            out = []
            q = p
            while n is None or len(out) < n:
                r = self.ev(e[1], q, env, lvl)
                if r is FAIL:
                    break
                if r[1] == q:
                    if n is None:
                        raise IllFormed('nullable under unbounded repetition')
                out.append(r[0])
                q = r[1]
            if len(out) < m:
                if q != p:
                    self.undo += 1
                return FAIL
            return (out, q)
        if k == 'expect':
            r = self.ev(e[1], p, env, lvl)
            if r is FAIL:
                return FAIL
            if r[1] != p:
                self.undo += 1
            return (r[0], p)
        if k == 'expectnot':
            r = self.ev(e[1], p, env, lvl)
            if r is FAIL:
                return (None, p)
            if r[1] != p:
                self.undo += 1
            return FAIL
        if k == 'skip':
            q = p
            while True:
                for x in e[1]:
                    r = self.ev(x, q, env, lvl)
                    if r is not FAIL:
                        if r[1] == q:
                            raise IllFormed('nullable under Skip')
                        q = r[1]
                        break
                else:
                    break
            return (None, q)
        if k == 'longest':
            best = FAIL
            for x in e[1]:
                r = self.ev(x, p, env, lvl)
                if r is not FAIL and (best is FAIL or r[1] > best[1]):
                    best = r
            if len(e[1]) > 1:
                self.undo += 1
            return best
        if k == 'backtrack':
            return (None, p - e[1]) if p >= e[1] else FAIL
        if k == 'fail':
            return FAIL
        if k == 'sep':
            return self.sep(e, p, env, lvl)
        if k == 'let':
            a = self.ev(e[2], p, env, lvl)
            if a is FAIL:
                return FAIL
            env2 = dict(env)
            env2[e[1]] = a[0]
            r = self.ev(e[3], a[1], env2, lvl)
            if r is FAIL and a[1] != p:
                self.undo += 1
            return r
        if k == 'where':
            a = self.ev(e[1], p, env, lvl)
            if a is FAIL:
                return FAIL
            f = self.ev(e[2], a[1], env, lvl)
            if f is FAIL or not f[0](a[0]):
                if a[1] != p:
                    self.undo += 1
                return FAIL
            return (a[0], f[1])
        if k == 'apply' or k == 'lapply':
            a = self.ev(e[1], p, env, lvl)
            if a is FAIL:
                return FAIL
            f = self.ev(e[2], a[1], env, lvl)
            if f is FAIL:
                if a[1] != p:
                    self.undo += 1
                return FAIL
            return ((f[0](a[0]) if k == 'apply' else a[0](f[0])), f[1])
        if k == 'optable':
            return OpTable(self, e, env, lvl).parse(p)
        raise ValueError('unknown node %r' % (k,))

    def run_value(self, v, p):
        """A bound name used as a parser."""
        if isinstance(v, Closure):
            return self.ev(v.e, p, v.env, v.lvl)
        if isinstance(v, LitArg):
            return self.ev(('str', str(v)), p, {}, v.lvl)
        if isinstance(v, BLitArg):
            return self.ev(('bstr', bytes(v)), p, {}, v.lvl)
        if isinstance(v, ByteArg):
            return self.ev(('byte', int(v)), p, {}, v.lvl)
        raise IllFormed('value used as parser: %r' % (v,))

    def call(self, e, p, env, lvl, through=False):
        name = e[1]
        if name in env and not through:
            # a parameter bound to (a reference to) a parameterised rule, called with arguments: the
            # arguments belong to this call site, the rule is the one the reference denotes
            v = env[name]
            if isinstance(v, Closure) and v.e[0] == 'ref' and v.e[1] not in v.env:
                return self.call(('call', v.e[1], e[2]), p, env, lvl, through=True)
            raise IllFormed('call through a bound name that is not a rule reference')
        if name.startswith('super.'):
            if lvl.parent is None:
                raise IllFormed('super without parent')
            name = name[len('super.'):]
            deflv, (kind, params, body) = self.lookup(name, lvl.parent)
        else:
            deflv, (kind, params, body) = self.lookup(name, self.ctx)
        if params is None:
            if not e[2] and not name.startswith('super.') and e[1] == name:
                # an empty argument list on a rule without parameters: a plain reference
                return self.call_rule(name, self.ctx, p)
            raise IllFormed('call of parameterless rule')
        args = {}
        pos_params = list(params)
        for a in e[2]:
            if isinstance(a, tuple) and a and a[0] == 'kw':
                prm, ax = a[1], a[2]
                if prm not in params or prm in args:
                    raise IllFormed('bad keyword')
                if prm in pos_params:
                    pos_params.remove(prm)
            else:
                if not pos_params:
                    raise IllFormed('too many args')
                prm, ax = pos_params.pop(0), a
            args[prm] = self.argument(ax, env, lvl)
        if len(args) != len(params):
            raise IllFormed('missing args')
        return self.rule_body(name, deflv, kind, body, p, args)

    def argument(self, a, env, lvl):
        k = a[0]
        if k == 'py':
            return self.pyeval(a[1], env, lvl)
        if k == 'num':
            return eval(a[1])
        if k == 'ref' and a[1] in env:
            return env[a[1]]
        if k == 'str':
            v = LitArg(a[1])
            v.lvl = lvl
            return v
        if k == 'bstr':
            v = BLitArg(a[1])
            v.lvl = lvl
            return v
        if k == 'byte':
            v = ByteArg(a[1])
            v.lvl = lvl
            return v
        return Closure(a, env, lvl)

    def sep(self, e, p, env, lvl):
        o = dict(discard_separators=True, allow_trailer=False, allow_empty=True,
                 require_separator=False)
        o.update((kk, v) for kk, v in e[3].items() if kk != '_op')
        out = []
        q = p            # end of what the list consumes so far
        cur = p          # where the next element is tried
        saw = False
        n_el = 0
        pending_sep = None
        while True:
            r = self.ev(e[1], cur, env, lvl)
            if r is FAIL:
                # a separator was matched but no element follows
                if pending_sep is not None:
                    if o['allow_trailer']:
                        if not o['discard_separators']:
                            out.append(pending_sep[0])
                        q = pending_sep[1]
                    else:
                        self.undo += 1
                break
            if pending_sep is not None and not o['discard_separators']:
                out.append(pending_sep[0])
            out.append(r[0])
            n_el += 1
            q = r[1]
            s = self.ev(e[2], q, env, lvl)
            if s is FAIL:
                pending_sep = None
                break
            if s[1] == cur:
                raise IllFormed('separated list makes no progress')
            saw = True
            pending_sep = s
            cur = s[1]
        if n_el == 0 and not o['allow_empty']:
            return FAIL
        if o['require_separator'] and n_el > 0 and not saw:
            if q != p:
                self.undo += 1
            return FAIL
        return (out, q)


class _Stop(Exception):
    pass


class OpTable:
    """Oracle E1b: precedence climbing over a greedy tokenisation."""

    def __init__(self, model, e, env, lvl):
        self.m, self.env, self.lvl = model, env, lvl
        self.operand_e = e[1]
        self.rows = e[2]

    def ev(self, x, p):
        return self.m.ev(x, p, self.env, self.lvl)

    def match_ops(self, kinds, p):
        best = None
        for r, (kind, ops) in enumerate(self.rows):
            if kind not in kinds:
                continue
            for op in ops:               # ordered choice inside one row
                res = self.ev(op, p)
                if res is not FAIL:
                    if best is None or res[1] > best[3]:
                        best = (r, kind, res[0], res[1])
                    break
        return best

    def operand(self, p):
        best = self.ev(self.operand_e, p)
        for kind, ops in self.rows:
            if kind != 'mixfix':
                continue
            for op in ops:
                res = self.ev(op, p)
                if res is not FAIL:
                    if best is FAIL or res[1] > best[1]:
                        best = res
                    break
        return best

    def operand_follows(self, q):
        while True:
            m = self.match_ops(('prefix',), q)
            if not m or m[3] == q:
                break
            q = m[3]
        return self.operand(q) is not FAIL

    def tokenize(self, p):
        toks = []
        end = None
        committed = 0
        while True:
            q = p
            pend = []
            while True:
                m = self.match_ops(('prefix',), q)
                if not m:
                    break
                if m[3] == q:
                    raise IllFormed('nullable prefix operator')
                pend.append(('pre', m[0], m[2], m[3]))
                q = m[3]
            o = self.operand(q)
            if o is FAIL:
                break
            toks.extend(pend)
            toks.append(('opd', None, o[0], o[1]))
            q = o[1]
            while True:
                m = self.match_ops(('postfix',), q)
                if not m:
                    break
                if m[3] == q:
                    raise IllFormed('nullable postfix operator')
                # "among operators of different rows matching at the same place the longest match wins":
                # a postfix operator does not shadow a longer infix operator that starts at the same
                # place and is followed by an operand (an operator without operand is left unconsumed,
                # so the postfix operator stands in that case)
                mi = self.match_ops(('left', 'right', 'infix'), q)
                if mi and mi[3] > m[3]:
                    self.m.shadow_events += 1
                    if self.m.optable_reading == 'statement' and self.operand_follows(mi[3]):
                        break
                toks.append(('post', m[0], m[2], m[3]))
                q = m[3]
            end = q
            committed = len(toks)
            m = self.match_ops(('left', 'right', 'infix'), q)
            if not m:
                break
            if m[3] == q and o[1] == p:
                raise IllFormed('operator table makes no progress')
            toks.append(('in', (m[0], m[1]), m[2], m[3]))
            p = m[3]
        if len(toks) != committed or end is None:
            self.m.undo += 1
        return toks[:committed], end

    def parse(self, p):
        toks, end = self.tokenize(p)
        if end is None:
            return FAIL
        self.toks, self.i = toks, 0
        try:
            tree = self.expr(10 ** 9)
        except _Stop:
            tree = self.stop_tree
        if self.i < len(self.toks):
            end = self.toks[self.i - 1][3]
            self.m.undo += 1
        return (tree, end)

    def peek(self):
        return self.toks[self.i] if self.i < len(self.toks) else None

    def expr(self, limit):
        tok = self.peek()
        if tok[0] == 'pre':
            self.i += 1
            try:
                right = self.expr(tok[1])
            except _Stop:
                self.stop_tree = Obj('Prefix', [('operator', tok[2]), ('right', self.stop_tree)], None)
                raise
            left = Obj('Prefix', [('operator', tok[2]), ('right', right)], None)
        else:
            self.i += 1
            left = tok[2]
        last_nonassoc = None
        while True:
            tok = self.peek()
            if tok is None:
                return left
            if tok[0] == 'post':
                if tok[1] <= limit:
                    self.i += 1
                    left = Obj('Postfix', [('left', left), ('operator', tok[2])], None)
                    last_nonassoc = None
                    continue
                return left
            r, kind = tok[1]
            if r > limit:
                return left
            if r == limit and kind != 'right':
                return left
            if kind == 'infix' and last_nonassoc == r:
                self.stop_tree = left
                raise _Stop()
            self.i += 1
            try:
                right = self.expr(r)
            except _Stop:
                self.stop_tree = Obj('Infix', [('left', left), ('operator', tok[2]),
                                               ('right', self.stop_tree)], None)
                raise
            left = Obj('Infix', [('left', left), ('operator', tok[2]), ('right', right)], None)
            last_nonassoc = r if kind == 'infix' else None


# ---------------------------------------------------------------------------

def norm_model(v):
    if isinstance(v, Obj):
        if v.span is None:
            sp = None
        else:
            s, e = v.span
            sp = (s, e - 1) if e > s else None
        return ('obj', v.cls, tuple((k, norm_model(x)) for k, x in v.fields), sp)
    if isinstance(v, list):
        return [norm_model(x) for x in v]
    if isinstance(v, tuple):
        return tuple(norm_model(x) for x in v)
    if isinstance(v, dict):
        return ('dict', tuple((norm_model(k), norm_model(x)) for k, x in v.items()))
    if isinstance(v, LitArg):
        return str(v)
    if isinstance(v, BLitArg):
        return bytes(v)
    if isinstance(v, ByteArg):
        return int(v)
    if isinstance(v, Closure):
        return ('closure',)
    return v


def expected(chain, text, entry=None, pos=0, fullparse=True, budget=200000, late_ignore=True, optable_reading='statement'):
    """Outcome the documented meaning assigns to <entry>.parse(text,pos,fullparse).

    entry None = module-level parse.  Returns (outcome, model)."""
    m = Model(chain, text, budget=budget, late_ignore=late_ignore)
    m.optable_reading = optable_reading
    name = m.entry_name() if entry is None else entry
    if isinstance(name, tuple):
        # a parameterised class used as entry point, Cls.parse(*values)(text, ...): the class body with
        # the parameters bound to the given Python values
        cname, values = name
        lv, (kind, params, body) = m.lookup(cname, m.ctx)
        if kind != 'class' or params is None or len(params) != len(values):
            raise IllFormed('entry %r is not a class with %d parameters' % (cname, len(values)))
        r = m.rule_body(cname, lv, kind, body, pos, dict(zip(params, values)))
    else:
        r = m.call_rule(name, m.ctx, pos)
    if r is FAIL:
        return ('error',), m
    v, e = r
    if fullparse and e < len(text):
        return ('partial', norm_model(v), e), m
    return ('value', norm_model(v)), m
