"""Driver: shards a check over worker subprocesses, merges results, classifies
violations against known_findings.json, writes evidence and replay files.

Exit codes: 0 held on everything observed (KNOWN-FINDING lines allowed),
1 violation (line `VIOLATION property=<id> replay=<path>`), 2 inconclusive.
"""
import concurrent.futures
import hashlib
import importlib
import json
import os
import subprocess
import sys
import tempfile
import time

HERE = os.path.dirname(os.path.dirname(os.path.abspath(__file__)))
PY = os.environ.get('VERIF_PYTHON', '/venv/bin/python')
DEPS = os.path.join(HERE, '.deps')


def ensure_deps():
    """icontract beside the repository's interpreter (offline wheelhouse).  Falls
    back to the shim in vlib.contracts when the wheel cannot be installed."""
    if os.path.isdir(os.path.join(DEPS, 'icontract')):
        return True
    try:
        subprocess.run([PY, '-m', 'pip', 'install', '--no-index', '--quiet',
                        '--find-links', '/opt/veriftools/wheels', '--target', DEPS,
                        'icontract'], check=True, timeout=300,
                       stdout=subprocess.DEVNULL, stderr=subprocess.DEVNULL)
        return True
    except Exception:
        return False


def setup():
    ok = ensure_deps()
    for d in ('evidence', 'replays'):
        os.makedirs(os.path.join(HERE, d), exist_ok=True)
    print('setup: icontract %s' % ('installed' if ok else 'UNAVAILABLE (shim will be used)'))
    return 0


def worker_env(seed):
    env = dict(os.environ)
    env['PYTHONDONTWRITEBYTECODE'] = '1'
    env['PYTHONHASHSEED'] = '0'
    env['VERIF_SEED'] = str(seed)
    env.setdefault('VERIF_REPO', '/repo')
    env['PYTHONPATH'] = HERE + os.pathsep + DEPS
    env['PIP_NO_INDEX'] = '1'
    return env


def run_worker(prop, tier, seed, shard, nshards, timeout, extra=None):
    fd, out = tempfile.mkstemp(prefix='verif-%s-' % prop, suffix='.json')
    os.close(fd)
    cmd = [PY, '-X', 'faulthandler', '-m', 'vlib.worker', prop, tier, str(seed), str(shard),
           str(nshards), out]
    if extra:
        cmd.append(extra)
    t0 = time.time()
    try:
        p = subprocess.run(cmd, cwd=HERE, env=worker_env(seed), timeout=timeout,
                           stdout=subprocess.PIPE, stderr=subprocess.PIPE)
        status = p.returncode
        err = p.stderr.decode('utf-8', 'replace')[-4000:]
    except subprocess.TimeoutExpired as e:
        status = 'watchdog'
        err = (e.stderr or b'').decode('utf-8', 'replace')[-2000:]
    res = None
    try:
        with open(out) as f:
            txt = f.read()
        if txt.strip():
            res = json.loads(txt)
    except Exception as e:
        err += '\n[result unreadable: %s]' % e
    finally:
        try:
            os.unlink(out)
        except OSError:
            pass
    return dict(shard=shard, status=status, stderr=err, result=res, wall=time.time() - t0)


def load_findings():
    p = os.path.join(HERE, 'known_findings.json')
    try:
        with open(p) as f:
            return json.load(f)
    except FileNotFoundError:
        return {'findings': []}


def match_finding(findings, prop, sig):
    import fnmatch
    for f in findings.get('findings', []):
        if f.get('status') != 'open' or f.get('property') != prop:
            continue
        pats = f.get('signatures') or [f.get('signature', '')]
        for pat in pats:
            if sig == pat or fnmatch.fnmatchcase(sig, pat):
                return f
    return None


def digest(obj):
    return hashlib.sha1(json.dumps(obj, sort_keys=True, default=repr).encode()).hexdigest()[:12]


def jsonable(o):
    return json.loads(json.dumps(o, default=repr))


def main(argv):
    import argparse
    ap = argparse.ArgumentParser()
    ap.add_argument('prop', nargs='?')
    ap.add_argument('--tier', default=os.environ.get('VERIF_TIER', 'quick'))
    ap.add_argument('--replay')
    ap.add_argument('--setup', action='store_true')
    ap.add_argument('--jobs', type=int, default=int(os.environ.get('VERIF_JOBS', '0')) or (os.cpu_count() or 4))
    a = ap.parse_args(argv)
    if a.setup:
        return setup()
    if not a.prop:
        ap.error('property id required')
    prop = a.prop.upper()
    tier = a.tier if a.tier in ('quick', 'thorough') else 'quick'
    try:
        seed = int(os.environ.get('VERIF_SEED', '0'))
    except ValueError:
        seed = 0
    ensure_deps()
    for d in ('evidence', 'replays'):
        os.makedirs(os.path.join(HERE, d), exist_ok=True)
    sys.path.insert(0, HERE)
    mod = importlib.import_module('vlib.checks.' + prop.lower())

    if a.replay:
        r = run_worker(prop, tier, seed, 0, 1, 3600, extra='replay=' + os.path.abspath(a.replay))
        res = r['result'] or {}
        if r['status'] not in (0,) or res.get('error'):
            print('INCONCLUSIVE property=%s reason=replay worker failed: %s' % (prop, (r['stderr'] or '')[-500:]))
            return 2
        if res.get('violations'):
            for v in res['violations']:
                print('REPRODUCED property=%s sig=%s' % (prop, v.get('sig')))
                print(json.dumps(jsonable(v), indent=1)[:3000])
            print('VIOLATION property=%s replay=%s' % (prop, a.replay))
            return 1
        print('replay: no violation reproduced')
        return 0

    plan = mod.plan(tier, seed)
    nshards = plan.get('shards', a.jobs)
    timeout = plan.get('timeout', 1500 if tier == 'quick' else 7200)
    t0 = time.time()
    results = []
    with concurrent.futures.ThreadPoolExecutor(max_workers=a.jobs) as ex:
        futs = [ex.submit(run_worker, prop, tier, seed, i, nshards, timeout) for i in range(nshards)]
        for f in futs:
            results.append(f.result())
    wall = time.time() - t0

    findings = load_findings()
    evaluations = 0
    nontrivial = 0
    counters = {}
    samples = []
    violations = []
    notes = []
    dropped = 0
    broken = []
    maxes = {}
    for r in results:
        res = r['result']
        if r['status'] != 0 or res is None or res.get('error'):
            broken.append(dict(shard=r['shard'], status=r['status'],
                               error=(res or {}).get('error'), stderr=r['stderr'][-1500:]))
        if not res:
            continue
        evaluations += res.get('evaluations', 0)
        nontrivial += res.get('distinct_nontrivial', 0)
        dropped += res.get('dropped', 0)
        for k, v in res.get('counters', {}).items():
            counters[k] = counters.get(k, 0) + v
        for k, v in res.get('maxes', {}).items():
            maxes[k] = max(maxes.get(k, v), v)
        for s in res.get('samples', []):
            if len(samples) < 8:
                samples.append(s)
        violations.extend(res.get('violations', []))
        notes.extend(res.get('notes', []))

    if os.environ.get('VERIF_DUMP'):
        with open(os.environ['VERIF_DUMP'], 'w') as f:
            json.dump(jsonable(violations), f, indent=1)

    # classify
    known_hit = {}
    new = []
    for v in violations:
        f = match_finding(findings, prop, v.get('sig', ''))
        if f is not None:
            known_hit.setdefault(f.get('signature') or f.get('id', 'finding'), [f, 0])[1] += 1
        else:
            new.append(v)
    exit_code = 0
    for sig, (f, n) in sorted(known_hit.items()):
        print('KNOWN-FINDING: property=%s %s [%s; %d witness(es) this run]' % (prop, f.get('what', ''), sig, n))
    seen = set()
    replay_paths = []
    for v in new:
        d = digest([v.get('sig'), v.get('case')])
        if d in seen:
            continue
        seen.add(d)
        if len(replay_paths) >= 25:
            continue
        path = os.path.join('replays', '%s-%s.json' % (prop, d))
        with open(os.path.join(HERE, path), 'w') as f:
            json.dump(jsonable(dict(property=prop, tier=tier, seed=seed, **v)), f, indent=1)
        replay_paths.append(path)
        print('VIOLATION property=%s replay=%s' % (prop, path))
        print('  sig=%s monitor=%s' % (v.get('sig'), v.get('monitor')))
        print('  case=%s' % json.dumps(jsonable(v.get('case')))[:600])
        print('  expected=%s' % str(v.get('expected'))[:300])
        print('  observed=%s' % str(v.get('observed'))[:300])
    if new:
        exit_code = 1

    inconclusive = []
    if broken:
        inconclusive.append('worker failure: %s' % json.dumps(broken)[:1500])
    try:
        inconclusive.extend(mod.inconclusive(counters, evaluations, tier) or [])
    except AttributeError:
        pass
    if evaluations == 0:
        inconclusive.append('no cases evaluated')

    coverage = dict(
        evaluations=evaluations,
        distinct_nontrivial=nontrivial,
        rule=plan.get('rule', ''),
        samples=samples,
        counters=counters,
        maxes=maxes,
        dropped_by_generator=dropped,
        shards=nshards,
        known_findings_matched={k: n for k, (f, n) in known_hit.items()},
        new_violations=len(new),
        inconclusive=inconclusive,
        notes=notes[:20],
        exhaustive=bool(plan.get('exhaustive', False)),
    )
    coverage.update(plan.get('coverage_extra', {}))
    evidence = dict(
        property_id=prop, tier=tier, seed=seed, level=plan.get('level', 'exploration'),
        coverage=coverage, assumptions=plan.get('assumptions', []),
        wall_s=round(wall, 2), violations=len(new),
    )
    # runs against a scratch tree (VERIF_REPO set by the developer aids) must not overwrite the evidence
    # of /repo itself: they name another directory
    evdir = os.environ.get('VERIF_EVIDENCE_DIR') or os.path.join(HERE, 'evidence')
    os.makedirs(evdir, exist_ok=True)
    with open(os.path.join(evdir, '%s.json' % prop), 'w') as f:
        json.dump(jsonable(evidence), f, indent=1)

    print('%s tier=%s seed=%d: %d evaluations, %d distinct non-trivial, %d new violations, '
          '%d known-finding witnesses, %.1fs' % (prop, tier, seed, evaluations, nontrivial,
                                                  len(new), sum(n for _, n in known_hit.values()), wall))
    keys = sorted(counters)
    if keys:
        print('  observed: ' + ', '.join('%s=%d' % (k, counters[k]) for k in keys)[:1800])
    cut = sum(v for k, v in counters.items() if k.endswith('cut_by_time'))
    if cut:
        # the wall-clock watchdog is no verdict: it only says that part of the planned workload did not run
        print('  NOTE: %d workload loop(s) were cut short by the wall-clock watchdog in this run (coverage reduced; '
              'the counts above are what actually ran)' % cut)
    if inconclusive:
        for why in inconclusive:
            print('INCONCLUSIVE property=%s reason=%s' % (prop, why[:1500]))
        if exit_code == 0:
            return 2
    return exit_code


if __name__ == '__main__':
    sys.exit(main(sys.argv[1:]))
