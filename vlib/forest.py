"""Random forests of parsed objects built with the classes of a real emitted
module, and reference implementations (written from the property statements) of
structural equality, visit, traverse and transform."""
import itertools

from . import observe

FOREST_GRAMMAR = r'''
class Z0 { }
class U1 { a: "a" }
class B2 { a: "a"; b: "b" }
class T3 { a: "a"; b: "b"; c: "c" }
class Q5 { a: "a"; b: "b"; c: "c"; d: "d"; e: "e" }
class V1 { a: "v" }
Expr = /\d/ between {
    prefix: "-"
    postfix: "!"
    left: "+"
}
start = (U1 | B2 | T3 | Q5 | V1 | Expr | ("z" >> Z0))*
'''

CLASSES = [('Z0', 0), ('U1', 1), ('B2', 2), ('T3', 3), ('Q5', 5), ('V1', 1)]


def load_module(name=None):
    desc = FOREST_GRAMMAR if name is None else 'grammar %s\n%s' % (name, FOREST_GRAMMAR)
    r = observe.compile_grammar(desc)
    if r[0] != 'ok':
        raise RuntimeError('forest grammar does not compile: %r' % (r,))
    return r[1]


import collections as _collections

# a tuple with field names: still a tuple (expanded by index), not a parsed object
NamedPair = _collections.namedtuple('NamedPair', 'p q')


class ForestGen:
    """Leaf identity is controlled: `shared_leaves` are re-used as the *same* object;
    `fresh` leaves are equal but distinct objects."""

    def __init__(self, rng, g, containers=True, dicts=True, share=0.25, cycles=False, named_tuples=False):
        self.rng = rng
        self.g = g
        self.containers = containers
        self.dicts = dicts
        self.share = share
        self.named_tuples = named_tuples
        self.pool = []          # already built objects / containers available for sharing
        self.shared_leaves = [None, 0, 1, 7, 256, 257, 10 ** 20, '', 'a', 'ab', 'shared-string-object', True, False,
                              1.5, b'by']

    def leaf(self):
        r = self.rng
        c = r.random()
        if c < 0.6:
            return r.choice(self.shared_leaves)
        if c < 0.8:
            # equal but distinct objects
            return ''.join(['fre', 'sh%d' % r.randint(0, 2)])
        if c < 0.9:
            return int('1000%d' % r.randint(0, 2))
        return r.choice([(), [], {}])

    def value(self, depth):
        r = self.rng
        if self.pool and r.random() < self.share:
            return r.choice(self.pool)
        if depth <= 0 or r.random() < 0.3:
            return self.leaf()
        c = r.random()
        if c < 0.5:
            v = self.obj(depth - 1)
        elif c < 0.7 and self.containers:
            v = [self.value(depth - 1) for _ in range(r.randint(0, 3))]
        elif c < 0.8 and self.containers:
            if self.named_tuples and r.random() < 0.25:
                v = NamedPair(self.value(depth - 1), self.value(depth - 1))
            else:
                v = tuple(self.value(depth - 1) for _ in range(r.randint(0, 3)))
        elif c < 0.9 and self.containers and self.dicts:
            v = {k: self.value(depth - 1) for k in r.sample(['k1', 'k2', 3, None, 'k5'], r.randint(0, 3))}
        else:
            v = self.op(depth - 1)
        if not isinstance(v, (str, int, float, type(None), bytes)) or isinstance(v, tuple):
            self.pool.append(v)
        return v

    def obj(self, depth):
        r = self.rng
        name, arity = r.choice(CLASSES)
        cls = getattr(self.g, name)
        o = cls(*[self.value(depth) for _ in range(arity)])
        if r.random() < 0.5:
            a = r.randint(0, 50)
            o._metadata.position_info = self.g._PositionInfo(self.g._Position(a, 1, a + 1), self.g._Position(a + 3, 1, a + 4))
        return o

    def op(self, depth):
        r = self.rng
        k = r.randrange(3)
        if k == 0:
            return self.g.Infix(self.value(depth), r.choice(['+', '-']), self.value(depth))
        if k == 1:
            return self.g.Prefix('-', self.value(depth))
        return self.g.Postfix(self.value(depth), '!')

    def tree(self, depth):
        self.pool = []
        return self.value(depth)


def is_obj(g, v):
    return isinstance(v, g.ParsedObject)


def mutate(gen, g, v, rng):
    """A structurally close variant of v (one field / element changed, or an equal rebuild)."""
    k = rng.random()
    if is_obj(g, v) and type(v)._fields:
        f = rng.choice(type(v)._fields)
        kw = {x: getattr(v, x) for x in type(v)._fields}
        if k < 0.35:
            pass                                    # equal rebuild, distinct identity
        elif k < 0.7:
            kw[f] = gen.value(1)
        else:
            kw[f] = mutate(gen, g, kw[f], rng)
        return type(v)(**kw)
    if isinstance(v, list):
        w = list(v)
        if w and k < 0.6:
            i = rng.randrange(len(w))
            w[i] = mutate(gen, g, w[i], rng)
        elif k < 0.8:
            w.append(gen.leaf())
        return w
    if isinstance(v, tuple):
        return tuple(mutate(gen, g, list(v), rng))
    if isinstance(v, dict):
        w = dict(reversed(list(v.items())))          # same content, different insertion order
        if k < 0.4 and w:
            kk = rng.choice(list(w))
            w[kk] = mutate(gen, g, w[kk], rng)
        return w
    if k < 0.5:
        return v
    return gen.leaf()


def shared_twins(gen, g, rng):
    """Pairs (A, B): A holds ONE instance X in two places, B has an equal rebuild of X at the first
    place and a different value at the second (and the mirror image) -- for comparisons that remember
    which sub-objects they have already compared."""
    out = []
    for _ in range(3):
        x = gen.obj(1)
        if not type(x)._fields:
            x = g.U1(gen.leaf())
        x2 = type(x)(**{f: getattr(x, f) for f in type(x)._fields})         # equal, distinct identity
        y = mutate(gen, g, x, rng)
        shapes = [
            lambda p, q: g.B2(p, q),
            lambda p, q: g.T3(g.U1(p), gen.leaf(), [q]),
            lambda p, q: g.Infix(p, '+', q),
            lambda p, q: g.U1([p, 0, q]),
            lambda p, q: g.U1({'k1': p, 'k2': q}),
            lambda p, q: g.U1((p, (q,))),
            lambda p, q: g.B2(g.Prefix('-', p), g.Postfix(q, '!')),
        ]
        mk = rng.choice(shapes)
        out += [mk(x, x), mk(x2, y), mk(y, x2), mk(x2, x2)]
    return out


# -- reference structural equality (iterative) ------------------------------------

def ref_eq(g, a, b):
    """Same class and pairwise equal fields; metadata and identity irrelevant."""
    stack = [(a, b)]
    seen = set()
    while stack:
        x, y = stack.pop()
        if x is y:
            continue
        key = (id(x), id(y))
        xo, yo = is_obj(g, x), is_obj(g, y)
        if xo or yo:
            if not (xo and yo) or type(x) is not type(y):
                return False
            if key in seen:
                continue
            seen.add(key)
            for f in type(x)._fields:
                stack.append((getattr(x, f), getattr(y, f)))
            continue
        if isinstance(x, (list, tuple)) or isinstance(y, (list, tuple)):
            if type(x) is not type(y):
                return False                      # Python: [1] != (1,)
            if len(x) != len(y):
                return False
            stack.extend(zip(x, y))
            continue
        if isinstance(x, dict) or isinstance(y, dict):
            if not (isinstance(x, dict) and isinstance(y, dict)) or set_keys(x) != set_keys(y):
                return False
            for k in x:
                stack.append((x[k], y[k]))
            continue
        if not (x == y):
            return False
    return True


def set_keys(d):
    try:
        return set(d.keys())
    except TypeError:
        return sorted(map(repr, d.keys()))


# -- reference visit / traverse (recursive specification, run iteratively) ----------

def ref_visit(g, root):
    """Every parsed object reachable through fields, lists, tuples, dict values: once,
    parents before children, siblings left to right; shared objects once."""
    out = []
    seen = set()

    def go(v):
        if isinstance(v, (list, tuple)):
            for x in v:
                go(x)
        elif isinstance(v, dict):
            for x in v.values():
                go(x)
        elif is_obj(g, v):
            if id(v) in seen:
                return
            seen.add(id(v))
            out.append(v)
            for f in type(v)._fields:
                go(getattr(v, f))

    _run_deep(go, root)
    return out


def ref_traverse(g, root):
    """Event list [(parent, field, child, is_finished)].  For the root and for every
    field / element / entry one entering and one finished event, nested depth first,
    left to right.  A shared object or container is expanded only the first time; for
    the later meetings the statement fixes only 'not expanded again' -- the reference
    emits the entering/finished pair and records the slot in `optional` so that the
    comparison accepts either the pair or no events."""
    events = []
    optional = set()
    expanded = set()

    def go(parent, field, child):
        is_container = isinstance(child, (list, tuple, dict)) or is_obj(g, child)
        if is_container and id(child) in expanded:
            optional.add(len(events))
            events.append((parent, field, child, False))
            events.append((parent, field, child, True))
            return
        events.append((parent, field, child, False))
        if is_container:
            expanded.add(id(child))
            if isinstance(child, (list, tuple)):
                for i, x in enumerate(child):
                    go(child, i, x)
            elif isinstance(child, dict):
                for k, x in child.items():
                    go(child, k, x)
            else:
                for f in type(child)._fields:
                    go(child, f, getattr(child, f))
        events.append((parent, field, child, True))

    _run_deep(lambda r: go(None, None, r), root)
    return events, optional


def _run_deep(fn, arg):
    """Runs a recursive reference on a big stack so that the *reference* is not what limits depth."""
    import sys
    import threading
    res = {}

    def target():
        old = sys.getrecursionlimit()
        sys.setrecursionlimit(max(old, 400000))
        try:
            res['v'] = fn(arg)
        except BaseException as e:             # pragma: no cover
            res['e'] = e
        finally:
            sys.setrecursionlimit(old)

    if _depth_hint(arg) < 500:
        return fn(arg)
    t = threading.Thread(target=target)
    t.start()
    t.join()
    if 'e' in res:
        raise res['e']
    return res.get('v')


def _depth_hint(v):
    d = 0
    while d < 600:
        if isinstance(v, (list, tuple)) and v:
            v = v[-1]
        elif isinstance(v, dict) and v:
            v = list(v.values())[-1]
        elif hasattr(type(v), '_fields') and type(v)._fields and hasattr(v, '_metadata'):
            v = getattr(v, type(v)._fields[-1])
        else:
            break
        d += 1
    return d


def same_event(a, b):
    return a[0] is b[0] and _same_field(a[1], b[1]) and a[2] is b[2] and bool(a[3]) == bool(b[3])


def _same_field(x, y):
    return type(x) is type(y) and x == y


def compare_traverse(expected, optional, observed):
    """Returns None when the observed stream matches the reference (accepting, for every
    optional slot, either the entering/finished pair or nothing), else a description."""
    i = j = 0
    n, m = len(expected), len(observed)
    while i < n:
        if i in optional:
            if j + 1 < m and same_event(expected[i], observed[j]) and same_event(expected[i + 1], observed[j + 1]):
                j += 2
            i += 2
            continue
        if j >= m:
            return 'stream ends early at reference event %d/%d: %s' % (i, n, describe_event(expected[i]))
        if not same_event(expected[i], observed[j]):
            return 'event %d: expected %s, observed %s' % (j, describe_event(expected[i]), describe_event(observed[j]))
        i += 1
        j += 1
    if j != m:
        return 'extra event %d: %s' % (j, describe_event(observed[j]))
    return None


def describe_event(e):
    def short(v):
        s = repr(v)
        return s if len(s) < 40 else s[:37] + '...'
    return '(%s.%r -> %s, %s)' % (type(e[0]).__name__, e[1], short(e[2]), 'finished' if e[3] else 'entering')


# -- reference transform -------------------------------------------------------------

def ref_transform(g, root, callbacks, log):
    """Bottom-up rewrite: children before parents, every object occurrence exactly once, each
    parent rebuilt from its transformed children before the callbacks see it; lists rebuilt
    element-wise; other leaves (and tuples / dicts, which the statement does not mention)
    pass through unchanged."""
    def go(node):
        if isinstance(node, list):
            return [go(x) for x in node]
        if not is_obj(g, node):
            return node
        updates = {}
        for f in type(node)._fields:
            was = getattr(node, f)
            now = go(was)
            if now is not was:
                updates[f] = now
        cur = node
        if updates:
            kw = {f: getattr(node, f) for f in type(node)._fields}
            kw.update(updates)
            cur = type(node)(**kw)
            cur._metadata.update(node._metadata)
        for i, cb in enumerate(callbacks):
            prev = cur
            log.append((i, type(prev).__name__ if is_obj(g, prev) else type(prev).__name__, _shape(g, prev)))
            if is_obj(g, prev):
                log.append(('meta', i, repr(sorted(prev._metadata._fields.items()))))
            cur = cb(prev)
            # "without metadata of its own": nothing recorded, or nothing but empty entries (an operator
            # node that came out of a parse has no span of its own)
            if cur is not prev and is_obj(g, prev) and is_obj(g, cur) and not any(v is not None for v in cur._metadata._fields.values()) \
                    and prev._metadata._fields:
                # the replacement may be an object of the INPUT tree (a child handed back by the callback),
                # and the input is never modified: the metadata goes to an equal object, not to it
                cur = type(cur)(**{f: getattr(cur, f) for f in type(cur)._fields})
                cur._metadata.update(prev._metadata)
        return cur
    return _run_deep(go, root)


def _shape(g, v, depth=3):
    """A small structural fingerprint used to compare callback logs without identities."""
    if depth <= 0:
        return '..'
    if is_obj(g, v):
        return (type(v).__name__,) + tuple(_shape(g, getattr(v, f), depth - 1) for f in type(v)._fields)
    if isinstance(v, list):
        return ['L'] + [_shape(g, x, depth - 1) for x in v][:6]
    if isinstance(v, tuple):
        return ('T',) + tuple(_shape(g, x, depth - 1) for x in v)[:6]
    if isinstance(v, dict):
        return ('D', len(v))
    return (type(v).__name__, repr(v)[:20])


def snapshot(g, root):
    """Deep structural snapshot incl. identities and metadata, to detect modification of the input."""
    out = []
    seen = set()
    stack = [root]
    while stack:
        v = stack.pop()
        if is_obj(g, v):
            if id(v) in seen:
                continue
            seen.add(id(v))
            out.append(('o', id(v), type(v).__name__, tuple(id(getattr(v, f)) for f in type(v)._fields),
                        repr(dict(v._metadata._fields))))
            stack.extend(getattr(v, f) for f in type(v)._fields)
        elif isinstance(v, (list, tuple)):
            if id(v) in seen:
                continue
            seen.add(id(v))
            out.append(('c', id(v), type(v).__name__, tuple(id(x) for x in v)))
            stack.extend(v)
        elif isinstance(v, dict):
            if id(v) in seen:
                continue
            seen.add(id(v))
            out.append(('d', id(v), tuple((repr(k), id(x)) for k, x in v.items())))
            stack.extend(v.values())
    return out
