"""Boundary recorder: every call into sourcer goes through here.

Outcomes (normal forms, comparable with vlib.refpeg.expected):
    ('value', v) | ('partial', v, index) | ('error',) | ('other', exc_type, msg)
    ('timeout', what)     -- only after confirmation under the logical step counter
"""
import os
import signal
import sys
import time

REPO = os.environ.get('VERIF_REPO', '/repo')


def load_sourcer():
    """Import sourcer from the working tree under test (never from site-packages)."""
    if sys.path[0] != REPO:
        sys.path.insert(0, REPO)
    import sourcer
    here = os.path.realpath(os.path.dirname(sourcer.__file__))
    want = os.path.realpath(os.path.join(REPO, 'sourcer'))
    if here != want:
        raise RuntimeError('sourcer imported from %s, expected %s' % (here, want))
    return sourcer


class CaseTimeout(BaseException):
    pass


class StepBudget(BaseException):
    pass


def _alarm(signum, frame):
    raise CaseTimeout()


_installed = False


def _install():
    global _installed
    if not _installed:
        signal.signal(signal.SIGALRM, _alarm)
        _installed = True


SOFT_LIMIT = float(os.environ.get('VERIF_CASE_SOFT_S', '20'))
STEP_BUDGET = int(os.environ.get('VERIF_STEP_BUDGET', '5000000'))
_state = {'soft': SOFT_LIMIT, 'confirmed': 0}


def guarded(fn, *a, **kw):
    """Run fn; a wall-clock alarm only *triggers* a re-run under a logical step
    counter (sys.monitoring PY_START/PY_RESUME events).  Only exceeding the
    step budget is reported as non-termination."""
    _install()
    signal.setitimer(signal.ITIMER_REAL, _state['soft'])
    try:
        return ('ok', fn(*a, **kw))
    except CaseTimeout:
        pass
    finally:
        signal.setitimer(signal.ITIMER_REAL, 0)
    # confirm under the step counter (the verdict is logical, the alarm only a trigger)
    r = run_with_step_budget(fn, a, kw, STEP_BUDGET)
    if r[0] == 'nonterm':
        _state['confirmed'] += 1
        # once non-termination has been confirmed in this worker, trigger the logical check
        # earlier so that a looping mutant does not cost 20 s per case
        _state['soft'] = 2.0 if _state['confirmed'] < 3 else 0.5
    return r


def run_with_step_budget(fn, a, kw, budget):
    mon = sys.monitoring
    tool = 4
    count = [0]

    def on_event(code, off, *rest):
        count[0] += 1
        if count[0] > budget:
            raise StepBudget()

    try:
        mon.use_tool_id(tool, 'verif-steps')
    except ValueError:
        pass
    ev = mon.events
    mon.register_callback(tool, ev.PY_START, on_event)
    mon.register_callback(tool, ev.PY_RESUME, on_event)
    mon.set_events(tool, ev.PY_START | ev.PY_RESUME)
    try:
        return ('ok', fn(*a, **kw))
    except StepBudget:
        return ('nonterm', count[0])
    finally:
        mon.set_events(tool, 0)
        mon.register_callback(tool, ev.PY_START, None)
        mon.register_callback(tool, ev.PY_RESUME, None)
        try:
            mon.free_tool_id(tool)
        except Exception:
            pass


# ---------------------------------------------------------------------------

_counter = [0]


def compile_grammar(description, include_source=False):
    """Grammar(description) under guard.  Returns ('ok', module) |
    ('other', type, msg) | ('timeout', 'Grammar')."""
    sourcer = load_sourcer()
    try:
        st, g = guarded(sourcer.Grammar, description, include_source=include_source)
    except MemoryError as e:
        return ('other', 'MemoryError', 'at Grammar()')
    except RecursionError as e:
        return ('other', 'RecursionError', str(e)[:120])
    except Exception as e:
        return ('other', type(e).__name__, str(e)[:200])
    if st == 'nonterm':
        return ('timeout', 'Grammar')
    return ('ok', g)


def is_parsed_object(v):
    t = type(v)
    return hasattr(t, '_fields') and hasattr(v, '_metadata') and hasattr(t, '_replace') \
        and not isinstance(v, tuple)


def span_of(v):
    pi = v._metadata.position_info
    if not pi:
        return None
    try:
        s, e = pi.start.index, pi.end.index
    except AttributeError:
        return ('raw', repr(pi))
    if e < s:
        return None
    return (s, e)


def norm_real(v, _depth=0):
    if is_parsed_object(v):
        return ('obj', type(v).__name__,
                tuple((k, norm_real(getattr(v, k))) for k in type(v)._fields), span_of(v))
    if isinstance(v, list):
        return [norm_real(x) for x in v]
    if isinstance(v, tuple):
        return tuple(norm_real(x) for x in v)
    if isinstance(v, dict):
        return ('dict', tuple((norm_real(k), norm_real(x)) for k, x in v.items()))
    if type(v) is not str and isinstance(v, str):
        return str(v)
    if type(v) not in (int, bool) and isinstance(v, int) and not isinstance(v, bool):
        return int(v)
    return v


class Rec:
    __slots__ = ('outcome', 'exc', 'value')

    def __init__(self, outcome, exc=None, value=None):
        self.outcome, self.exc, self.value = outcome, exc, value


def parse_fn(g, entry):
    if entry is None:
        return g.parse
    if isinstance(entry, tuple):
        # a parameterised class used as entry point: Cls.parse(*args) returns the parse function
        name, args = entry
        return getattr(g, name).parse(*args)
    return getattr(g, entry).parse


_runaway = {}


def _note_runaway(g, outcome):
    k = id(g)
    n, _ = _runaway.get(k, (0, None))
    _runaway[k] = (n + 1, outcome)


def observe(g, text, entry=None, pos=0, fullparse=True, guard=True):
    """One recorded call.  Returns Rec."""
    # circuit breaker: a module that ran away twice (confirmed non-termination or memory
    # exhaustion) is not executed again in this worker; the recorded outcome is repeated so the
    # verdict stays 'violated' without paying for it on every input
    ra = _runaway.get(id(g))
    if ra is not None and ra[0] >= 2 and guard:
        return Rec(ra[1])
    r = _observe(g, text, entry, pos, fullparse, guard)
    if r.outcome[0] == 'timeout' or (r.outcome[0] == 'other' and r.outcome[1] == 'MemoryError'):
        _note_runaway(g, r.outcome)
    return r


def _observe(g, text, entry=None, pos=0, fullparse=True, guard=True):
    try:
        fn = parse_fn(g, entry)
    except Exception as e:
        return Rec(('other', type(e).__name__, 'entry lookup: ' + str(e)[:120]), e)
    kw = {}
    if pos != 0:
        kw['pos'] = pos
    if fullparse is not True:
        kw['fullparse'] = fullparse
    try:
        if guard:
            st, v = guarded(fn, text, **kw)
            if st == 'nonterm':
                return Rec(('timeout', 'parse'))
        else:
            v = fn(text, **kw)
    except g.PartialParseError as e:
        try:
            return Rec(('partial', norm_real(e.partial_result), e.last_position.index), e,
                       e.partial_result)
        except Exception as e2:
            return Rec(('other', type(e2).__name__, 'malformed PartialParseError: ' + str(e2)[:100]), e2)
    except g.ParseError as e:
        return Rec(('error',), e)
    except MemoryError as e:
        return Rec(('other', 'MemoryError', ''), e)
    except RecursionError as e:
        return Rec(('other', 'RecursionError', ''), e)
    except Exception as e:
        return Rec(('other', type(e).__name__, str(e)[:160]), e)
    return Rec(('value', norm_real(v)), None, v)


def outcome_class(o):
    return o[0] if o[0] != 'other' else 'other:' + o[1]


def short(o, n=300):
    s = repr(o)
    return s if len(s) <= n else s[:n] + '...'


def same_outcome(a, b):
    """Equality of normal forms that also distinguishes 1 / 1.0 / True and
    str / bytes (Python's == does not)."""
    if a != b:
        return False
    ra, rb = repr(a), repr(b)
    if ra == rb:
        return True
    if ' at 0x' in ra or ' at 0x' in rb:
        return True
    return False
