"""Shared machinery: compile a harness grammar with the real sourcer, evaluate
the reference model, compare recorded outcomes, apply the always-available
boundary monitors (outcome classifier, error-message checker, span checker)."""
import ast
import itertools
import sys

from . import gast, refpeg, observe, errcheck

_uid = itertools.count()


class Built:
    __slots__ = ('grammars', 'descs', 'g', 'modules', 'chain', 'names')

    def __init__(self):
        self.modules = []
        self.names = []

    def cleanup(self):
        for n in self.names:
            sys.modules.pop(n, None)
            # parents of dotted names
            while '.' in n:
                n = n.rsplit('.', 1)[0]
                if n.startswith('vt_'):
                    sys.modules.pop(n, None)


def unique_name(prefix='vt'):
    return '%s_%d_%d' % (prefix, observe.os.getpid(), next(_uid))


def build(rec, grammars, style=gast.DEFAULT, include_source=False, sigprefix='', case_extra=None,
          descs=None, report=True):
    """Compile one grammar dict or a chain (base first) with the real sourcer and
    build the model chain.  Returns Built or None (violation recorded when the
    real Grammar() raises on a description the generator guarantees well-formed)."""
    if isinstance(grammars, dict):
        grammars = [grammars]
    b = Built()
    b.grammars = grammars
    b.descs = descs or [gast.render_grammar(G, style) for G in grammars]
    for G, d in zip(grammars, b.descs):
        r = observe.compile_grammar(d, include_source=include_source)
        if r[0] != 'ok':
            if report:
                case = dict(kind='grammar', grammars_repr=repr(grammars), descs=b.descs)
                if case_extra:
                    case.update(case_extra)
                what = 'nontermination' if r[0] == 'timeout' else r[1]
                rec.violation('%sgrammar-error:%s' % (sigprefix, what), 'Grammar() outcome', case,
                              expected='module', observed=r)
            b.cleanup()
            return None
        b.modules.append(r[1])
        if G.get('name'):
            b.names.append(G['name'])
    b.g = b.modules[-1]
    try:
        b.chain = refpeg.build_chain(grammars)
    except refpeg.IllFormed:
        b.cleanup()
        rec.drop()
        return None
    return b


def model_outcome(rec, b, text, entry, pos, fullparse, late_ignore=True, budget=200000):
    try:
        return refpeg.expected(b.chain, text, entry, pos, fullparse, budget=budget,
                               late_ignore=late_ignore)
    except (refpeg.IllFormed, refpeg.ModelBudget, RecursionError) as e:
        rec.drop()
        rec.count('model_dropped_' + type(e).__name__)
        return None, None


def case_dict(b, text, entry, pos, fullparse, **extra):
    d = dict(kind='diff', grammars_repr=repr(b.grammars), descs=b.descs, text_repr=repr(text),
             entry=entry, pos=pos, fullparse=fullparse)
    d.update(extra)
    return d


def compare(rec, b, text, entry=None, pos=0, fullparse=True, monitor='E1', sigprefix='',
            monitors=('value',), late_ignore=True, extra_case=None):
    """Run model and real code for one call, compare, run the requested monitors.
    Returns (expected, Rec, model) or None when the case was dropped."""
    exp, model = model_outcome(rec, b, text, entry, pos, fullparse, late_ignore)
    if exp is None:
        return None
    o = observe.observe(b.g, text, entry, pos, fullparse)
    rec.case()
    obs = o.outcome
    cd = None

    def case():
        nonlocal cd
        if cd is None:
            cd = case_dict(b, text, entry, pos, fullparse, **(extra_case or {}))
        return cd

    if 'value' in monitors and not observe.same_outcome(exp, obs) and model is not None and model.shadow_events:
        # a postfix operator was read where a longer infix operator starts: sourcer reads postfix
        # operators first (known finding, keyed by this mechanism).  The disagreement is attributed to it
        # only if the outcome is exactly what the postfix-first reading gives.
        try:
            exp2, _ = refpeg.expected(b.chain, text, entry, pos, fullparse, late_ignore=late_ignore, optable_reading='code')
        except Exception:
            exp2 = None
        if exp2 is not None and observe.same_outcome(exp2, obs):
            sigprefix = sigprefix + 'postfix-shadows-longer-infix:'
    if 'value' in monitors and not observe.same_outcome(exp, obs):
        rec.violation('%s%s:%s->%s' % (sigprefix, monitor, observe.outcome_class(exp),
                                       observe.outcome_class(obs)),
                      monitor + ' reference model vs recorded outcome', case(), exp, obs)
    elif 'outcome' in monitors and obs[0] in ('other', 'timeout'):
        rec.violation('%soutcome:%s' % (sigprefix, observe.outcome_class(obs)),
                      'three-outcome classifier', case(), exp, obs)
    if 'errmsg' in monitors and o.exc is not None and obs[0] in ('error', 'partial'):
        probs = errcheck.check_error(b.g, text, pos, o.exc, model.M if model else None)
        rec.count('error_records_checked')
        for p in probs:
            rec.violation('%serrmsg:%s' % (sigprefix, p[0]), 'error location/message checker',
                          case(), p[1], p[2])
    if 'span' in monitors and obs[0] in ('value', 'partial'):
        probs = errcheck.check_spans(b.g, text, o.value)
        rec.count('span_trees_checked')
        for p in probs:
            rec.violation('%sspan:%s' % (sigprefix, p[0]), 'span invariants', case(), p[1], p[2])
    return exp, o, model


def rebuild_from_case(rec, case, include_source=False):
    grammars = ast.literal_eval(case['grammars_repr'])
    b = build(rec, grammars, descs=case.get('descs'), include_source=include_source)
    return b


def replay_diff(rec, case, monitors=('value', 'outcome', 'errmsg', 'span'), **kw):
    b = rebuild_from_case(rec, case)
    if b is None:
        return
    if case.get('kind') == 'grammar':
        return
    text = ast.literal_eval(case['text_repr'])
    compare(rec, b, text, case.get('entry'), case.get('pos', 0), case.get('fullparse', True),
            monitors=monitors, **kw)
    b.cleanup()
