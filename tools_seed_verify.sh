#!/bin/sh
# developer aid (copied from the session scratch directory): batch verification of sub-agent seeds; paths under /tmp/seedwt
# usage: verify.sh <round> <Cnn><a|b> [extra checks...]   (tries /repo HEAD, falls back to $FALLBACK_BASE when the patch does not apply)
r="$1"; s="$2"; shift; shift
p=$(echo "$s" | cut -c1-3); x=$(echo "$s" | cut -c4)
out=/tmp/seedwt/verify_${r}_$s.txt
cd /verif && VERIF_JOBS=10 ./tools_seed.sh /tmp/seedwt/out_${r}_$p/$x ${r}_$s $p "$@" > $out 2>&1
if grep -q "apply failed" $out && [ -n "$FALLBACK_BASE" ]; then
  echo "(on base $FALLBACK_BASE)" > $out
  SEED_BASE=$FALLBACK_BASE VERIF_JOBS=10 ./tools_seed.sh /tmp/seedwt/out_${r}_$p/$x ${r}_$s $p "$@" >> $out 2>&1
fi
