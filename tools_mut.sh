#!/bin/sh
# developer aid: ./tools_mut.sh <name> <check ids...>  -- expects a patch on stdin (unified diff or python script with #!py)
# creates a scratch worktree under /tmp/mut/<name>, applies, runs the repo tests and the named checks against it
name="$1"; shift
dir=/tmp/mut/$name
rm -rf "$dir"; mkdir -p /tmp/mut
git -C /repo worktree add --detach -f "$dir" HEAD >/dev/null 2>&1 || { echo "worktree failed"; exit 2; }
cat > /tmp/mut/$name.patch
if head -1 /tmp/mut/$name.patch | grep -q '^#!py'; then
  (cd "$dir" && /venv/bin/python /tmp/mut/$name.patch) || { echo "py patch failed"; exit 2; }
else
  git -C "$dir" apply /tmp/mut/$name.patch || { echo "apply failed"; exit 2; }
fi
git -C "$dir" diff --stat | tail -1
(cd "$dir" && /venv/bin/python -m pytest -q -p no:cacheprovider -x 2>&1 | tail -1)
for c in "$@"; do
  VERIF_EVIDENCE_DIR=/tmp/mut/evidence VERIF_REPO="$dir" ./check "$c" --tier quick > /tmp/mut/$name.$c.out 2>&1
  echo "$c exit=$? $(grep -c '^VIOLATION' /tmp/mut/$name.$c.out) violations; $(grep -m1 'sig=' /tmp/mut/$name.$c.out)"
done
git -C /repo worktree remove --force "$dir"
