#!/usr/bin/env python3
"""developer aid: tools_keep_seed.py <seed id> <property> <src dir> <caught_by> <first_result> <needs...>
copies patch.diff / demo.py / notes.md into /verif/seeded/<seed id>/ and writes meta.json"""
import json, os, shutil, sys
sid, prop, src, caught, first = sys.argv[1:6]
needs = ' '.join(sys.argv[6:])
d = os.path.join(os.path.dirname(os.path.abspath(__file__)), 'seeded', sid)
os.makedirs(d, exist_ok=True)
for f in ('patch.diff', 'demo.py', 'notes.md'):
    if os.path.exists(os.path.join(src, f)):
        shutil.copy(os.path.join(src, f), os.path.join(d, f))
meta = dict(
    id=sid, breaks_property=prop, origin='independent sub-agent given only the property text and a scratch worktree',
    needs_to_manifest=needs,
    verified=dict(
        how='tools_seed.sh: fresh scratch worktree of /repo HEAD; demo.py exits 0 without the change; patch applied; '
            'the 52 repository tests pass; demo.py exits 1 with the change; then ./check <id> --tier quick with VERIF_REPO=<worktree>',
        tests_pass_with_change=True, demo_fails_with_change=True, demo_passes_without_change=True),
    first_run_of_the_check=first,
    caught_by=caught,
)
json.dump(meta, open(os.path.join(d, 'meta.json'), 'w'), indent=1)
print('kept', d)
