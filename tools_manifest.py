#!/usr/bin/env python3
"""Regenerates MANIFEST.json from the check modules that exist (developer aid)."""
import json
import os

HERE = os.path.dirname(os.path.abspath(__file__))

TECH = {
    'C01': ('runtime monitoring: boundary recorder vs executable reference PEG model + online PEG trace-spec checker on instrumented emitted code', '4 C01'),
    'C02': ('runtime monitoring: recorded trees vs Pratt reference + model-free in-order re-reading of the tree against the input', '4 C02'),
    'C03': ('runtime monitoring: recorded outcomes vs reference model over all bounds / Sep option sets in hostile contexts', '4 C03'),
    'C04': ('runtime monitoring: reference model with ignore + ignorable-run lengthening relation + trace rule "skip only after a literal"', '4 C04'),
    'C05': ('runtime monitoring: recorded outcomes vs reference model with lexical environments; unique per-site values', '4 C05'),
    'C06': ('runtime monitoring: recorded outcomes vs closure-semantics model + real-vs-real macro-expansion differential', '4 C06'),
    'C07': ('runtime monitoring: sys.monitoring rule-body start events keyed by (parse call, rule, position) + sentinel identity', '4 C07'),
    'C08': ('runtime monitoring: three-outcome classifier + reference model + pos-shift relation on every rule/class entry point', '4 C08'),
    'C09': ('runtime monitoring: icontract post-conditions on the excerpt/line-column helpers + end-to-end message/caret checker', '4 C09'),
    'C10': ('runtime monitoring: reference spans + structural span invariants on every returned tree', '4 C10'),
    'C11': ('runtime monitoring: N-version comparison of production modes incl. emitted source run in an isolated interpreter', '4 C11'),
    'C12': ('runtime monitoring: generation 0/1 differential over a description corpus + generation 1/2 text identity in a scratch copy', '4 C12'),
    'C13': ('runtime monitoring: recorded outcomes vs reference model with context chains + parent before/after differential', '4 C13'),
    'C14': ('runtime monitoring: icontract contracts on __eq__/__hash__/_replace/_asdict + copy/pickle/repr round-trip oracles', '4 C14'),
    'C15': ('runtime monitoring: observed visit/traverse event streams vs recursive reference enumeration', '4 C15'),
    'C16': ('runtime monitoring: callback log + result/metadata/immutability monitors vs reference bottom-up rewrite', '4 C16'),
    'C17': ('runtime monitoring: wrapped-vs-unwrapped relation + frame-depth high-water probe under a tight recursion limit', '4 C17'),
    'C18': ('runtime monitoring: history/schedule differential vs fresh-module baseline with LINE-event yield injection', '4 C18'),
    'C19': ('runtime monitoring: N-version comparison of spelling variants + reference model', '4 C19'),
    'C20': ('runtime monitoring: renamed-vs-original relation under injective renamings into a hostile name pool', '4 C20'),
}

LEVEL_TEXT = ('Exploration: the oracle observed real executions of the working tree (generator + emitted '
              'parser) on the workload described in the evidence file; "held on K executions covering '
              'these shapes", never "verified".  Right level because the property quantifies over '
              'unbounded inputs/programs and the code is a pure-Python generator with no model to check.')
LEVEL_NOTE = ('Trusted: CPython 3.12, the re module (shared by model and code), the harness under /verif/vlib '
              '(reference model refpeg.py where the technique names it, generators, normaliser).')

BASELINE = ('cd /repo && /venv/bin/python -m pytest -ra -q -p no:cacheprovider --timeout=900 '
            '--continue-on-collection-errors')


def main():
    checks = []
    na = []
    props = [json.loads(l) for l in open(os.path.join(HERE, 'properties.jsonl'))]
    for p in props:
        pid = p['id']
        if os.path.exists(os.path.join(HERE, 'vlib', 'checks', pid.lower() + '.py')):
            tech, ref = TECH[pid]
            checks.append(dict(
                property_id=pid,
                quick_cmd='./check %s --tier quick' % pid,
                thorough_cmd='./check %s --tier thorough' % pid,
                evidence_file='evidence/%s.json' % pid,
                replay_cmd_template='./check %s --replay {path}' % pid,
                engine='vlib',
                level_claimed=dict(category='exploration', text=LEVEL_TEXT, design_ref='DESIGN.md section ' + ref),
                level_note=LEVEL_NOTE,
                technique=tech,
            ))
        else:
            na.append(dict(property_id=pid, reason='check not built yet in this round (planned: %s); nothing is claimed for it' % TECH[pid][0]))
    m = dict(
        version=1,
        setup_cmd='./check --setup',
        hooks=dict(
            guard='JVS_SOURCER_VERIF',
            enable='no source hooks are needed: observation is external (sys.monitoring on emitted code objects, '
                   'rebinding of emitted-module globals with contracts, harness-side instrumentation of the '
                   'Begin/End comments of _source_code); the variable name is reserved only',
            baseline_off_cmd=BASELINE,
            source_commits=[],
            add_only=True,
        ),
        engines=[dict(name='vlib', path='vlib/', serves_properties=[c['property_id'] for c in checks],
                      kind_free_text='runtime monitoring harness: workload generators, boundary recorder, reference '
                                     'model, trace/contract/probe monitors, sharded runner (16 worker processes)')],
        checks=checks,
        notes='All checks import sourcer from /repo (VERIF_REPO) at run time; nothing is built ahead. '
              'known_findings.json lists open findings (by mechanism) and fixed entries.',
        not_applicable=na,
    )
    with open(os.path.join(HERE, 'MANIFEST.json'), 'w') as f:
        json.dump(m, f, indent=1)
    print('checks:', [c['property_id'] for c in checks], 'n/a:', len(na))


if __name__ == '__main__':
    main()
