#!/usr/bin/env python3
"""Developer aid: a small automated mutation campaign against /repo.

For each textual mutant of sourcer/expressions/*.py and sourcer/translator.py (one line changed):
apply it in a scratch worktree, run the repository's tests; if they still pass (a mutant the tests
do not kill), run the quick checks that own the mutated file with VERIF_REPO pointing at the
worktree and record whether some check reports a violation.  Survivors are either equivalent
mutants or gaps in the workloads -- the list is for a human to read.

usage: [MUT_ONLY=<file substring>] tools_mutation_campaign.py <out.jsonl> [max_mutants] [seed]
"""
import json
import os
import random
import re
import subprocess
import sys

REPO = '/repo'
HERE = os.path.dirname(os.path.abspath(__file__))
PY = '/venv/bin/python'

CHECKS_FOR = {
    'expressions': ['C01', 'C03', 'C02', 'C04', 'C05', 'C06', 'C08', 'C17', 'C13'],
    'translator.py': ['C08', 'C10', 'C09', 'C14', 'C15', 'C16', 'C07', 'C01', 'C04', 'C13', 'C06', 'C18', 'C11', 'C17', 'C20'],
    'grammar.py': ['C11', 'C13', 'C18'],
}

OPS = [
    (r'return True$', 'return False'),
    (r'return False$', 'return True'),
    (r' < ', ' <= '),
    (r' <= ', ' < '),
    (r' >= ', ' > '),
    (r' == ', ' != '),
    (r' and ', ' or '),
    (r' or ', ' and '),
    (r'\bnot ', ''),
    (r' \+ 1\b', ''),
    (r' - 1\b', ''),
    (r'\bis not\b', 'is'),
    (r'if_fails', 'if_succeeds'),
    (r'reversed\((.*)\)', r'\1'),
    # second operator set (campaign 3): constants, membership, slices, removed statements
    (r' > ', ' >= '),
    (r' != ', ' == '),
    (r'\bis None\b', 'is not None'),
    (r'\bTrue\b', 'False'),
    (r'\bFalse\b', 'True'),
    (r'\bmin\(', 'max('),
    (r'\bmax\(', 'min('),
    (r'\[1:\]', '[:]'),
    (r'\[:-1\]', '[:]'),
    (r'\[0\]', '[-1]'),
    (r'\[-1\]', '[0]'),
    (r'(?<![\w.\[])0(?![\w.\]])', '1'),
    (r'(?<![\w.\[])1(?![\w.\]])', '2'),
    (r' \+= ', ' -= '),
    (r'\bany\(', 'all('),
    (r'\ball\(', 'any('),
    (r'\bif (.*):$', r'if True:'),
    (r'\belif (.*):$', r'elif False:'),
]


def candidates():
    files = []
    for root, _, names in os.walk(os.path.join(REPO, 'sourcer', 'expressions')):
        for n in sorted(names):
            if n.endswith('.py') and n != '__init__.py':
                files.append(os.path.join(root, n))
    files.append(os.path.join(REPO, 'sourcer', 'translator.py'))
    files.append(os.path.join(REPO, 'sourcer', 'grammar.py'))
    out = []
    for f in files:
        rel = os.path.relpath(f, REPO)
        lines = open(f).read().split('\n')
        for i, line in enumerate(lines):
            st = line.strip()
            if not st or st.startswith('#') or st.startswith('def ') or st.startswith('class ') or st.startswith('import') \
                    or st.startswith('from ') or st.startswith('"') or st.startswith("'") or 'raise ' in st or 'Exception(' in st:
                continue
            # deletion of a statement that moves or restores the position / sets the status
            if re.search(r'out \+= \(?(POS|STATUS|RESULT|checkpoint|backtrack)', st) and not st.endswith(':'):
                out.append((rel, i, 'delete', line, None))
            elif re.search(r'^(continue|break)$|\.(append|add|pop|update|extend|discard|clear|setdefault)\(', st) and not st.endswith(':') \
                    and st.count('(') == st.count(')'):
                out.append((rel, i, 'delete', line, None))
            for pat, rep in OPS:
                if re.search(pat, line):
                    new = re.sub(pat, rep, line, count=1)
                    if new != line:
                        out.append((rel, i, pat, line, new))
    return out


def run(cmd, cwd, timeout, env=None):
    try:
        p = subprocess.run(cmd, cwd=cwd, timeout=timeout, stdout=subprocess.PIPE, stderr=subprocess.STDOUT, env=env)
        return p.returncode, p.stdout.decode('utf-8', 'replace')
    except subprocess.TimeoutExpired:
        return 'timeout', ''


def main():
    outp = sys.argv[1]
    maxm = int(sys.argv[2]) if len(sys.argv) > 2 else 60
    seed = int(sys.argv[3]) if len(sys.argv) > 3 else 0
    cands = candidates()
    only = os.environ.get('MUT_ONLY')          # e.g. MUT_ONLY=translator.py restricts the files mutated
    if only:
        cands = [c for c in cands if only in c[0]]
    rng = random.Random(seed)
    rng.shuffle(cands)
    done = 0
    wt = os.environ.get('MUT_WT', '/tmp/mutc/wt')
    os.makedirs('/tmp/mutc', exist_ok=True)
    with open(outp, 'a') as log:
        for rel, i, op, old, new in cands:
            if done >= maxm:
                break
            subprocess.run(['git', '-C', REPO, 'worktree', 'remove', '--force', wt], stdout=subprocess.DEVNULL, stderr=subprocess.DEVNULL)
            r = subprocess.run(['git', '-C', REPO, 'worktree', 'add', '--detach', '-f', wt, 'HEAD'], stdout=subprocess.DEVNULL,
                               stderr=subprocess.DEVNULL)
            if r.returncode != 0:
                continue
            path = os.path.join(wt, rel)
            lines = open(path).read().split('\n')
            if lines[i] != old:
                continue
            if new is None:
                # keep the block syntactically valid
                indent = old[:len(old) - len(old.lstrip())]
                lines[i] = indent + 'pass'
            else:
                lines[i] = new
            open(path, 'w').write('\n'.join(lines))
            rc, txt = run([PY, '-m', 'pytest', '-q', '-x', '-p', 'no:cacheprovider', '--timeout=300'], wt, 900)
            rec = dict(file=rel, line=i + 1, op=op, old=old.strip(), new=None if new is None else new.strip())
            if rc != 0:
                rec['tests'] = 'killed'
                log.write(json.dumps(rec) + '\n')
                log.flush()
                continue
            rec['tests'] = 'pass'
            done += 1
            key = 'expressions' if 'expressions' in rel else os.path.basename(rel)
            caught = None
            env = dict(os.environ, VERIF_REPO=wt, VERIF_EVIDENCE_DIR='/tmp/mutc/evidence', VERIF_JOBS=os.environ.get('MUT_JOBS', '8'))
            for c in CHECKS_FOR[key]:
                rc2, txt2 = run([os.path.join(HERE, 'check'), c, '--tier', 'quick'], HERE, 2400, env)
                if rc2 == 1 and 'VIOLATION' in txt2:
                    m = re.search(r'sig=(\S+)', txt2)
                    caught = (c, m.group(1) if m else '?')
                    break
                if rc2 == 2:
                    caught = (c, 'INCONCLUSIVE')
                    break
            rec['caught_by'] = caught
            log.write(json.dumps(rec) + '\n')
            log.flush()
    subprocess.run(['git', '-C', REPO, 'worktree', 'remove', '--force', wt], stdout=subprocess.DEVNULL, stderr=subprocess.DEVNULL)


if __name__ == '__main__':
    main()
