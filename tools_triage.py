#!/usr/bin/env python3
"""Developer aid: cluster raw violations dumped with VERIF_DUMP."""
import json, sys, collections
v = json.load(open(sys.argv[1]))
c = collections.Counter()
ex = {}
for x in v:
    d = (x['case'].get('descs') or ['?'])[-1].strip().replace('\n', ' ; ')
    key = (x['sig'], d[:int(sys.argv[2]) if len(sys.argv) > 2 else 120])
    c[key] += 1
    ex.setdefault(key, x)
for (sig, d), n in sorted(c.items()):
    x = ex[(sig, d)]
    print(n, sig, '|', d, '| text', x['case'].get('text_repr'), x['case'].get('entry'), '| exp', str(x['expected'])[:80], '| obs', str(x['observed'])[:100])
print(len(v), 'violations', len(c), 'clusters')
