#!/usr/bin/env python3
"""developer aid (never run by a check): merge the (class, scope, name) triples of a raw C20 violation
dump (VERIF_DUMP=<file> VERIF_PER_SIG=1 VERIF_MAX_VIOL=8000 ./check C20) into the `signatures` lists of
the open C20 findings in known_findings.json.  Triples of class `none` are never added: they are
violations.  Prints what was added so that each new triple can be read before committing."""
import json, sys
dump = json.load(open(sys.argv[1]))
path = 'known_findings.json'
k = json.load(open(path))
by_class = {}
for e in k['findings']:
    if e['property'] == 'C20' and e.get('status') == 'open':
        by_class[e['id'].split('-', 1)[0] if 'id' in e else e['signatures'][0].split('-')[0]] = e
added = []
for v in dump:
    parts = v['sig'].split(':')
    klass, scope, name = parts[0], parts[1], parts[2]
    if klass.startswith('none'):
        continue
    e = by_class.get(klass.split('-')[0])
    if e is None:
        print('no finding for class', klass)
        continue
    pat = '%s:%s:%s:*' % (klass, scope, name)
    if pat not in e['signatures']:
        e['signatures'].append(pat)
        added.append(pat)
for e in by_class.values():
    e['signatures'].sort()
json.dump(k, open(path, 'w'), indent=1)
print('added', len(added))
for a in sorted(added):
    print(' ', a)
