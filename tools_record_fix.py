#!/usr/bin/env python3
"""developer aid: tools_record_fix.py <property> <commit> <what failed> --desc .. --input .. --expected .. --observed .. --found-by ..
appends a 'fixed' entry to known_findings.json (fixed entries suppress nothing)"""
import argparse, json, os
ap = argparse.ArgumentParser()
ap.add_argument('prop'); ap.add_argument('commit'); ap.add_argument('what')
ap.add_argument('--desc', default=''); ap.add_argument('--input', default=''); ap.add_argument('--expected', default='')
ap.add_argument('--observed', default=''); ap.add_argument('--found-by', default='')
a = ap.parse_args()
p = os.path.join(os.path.dirname(os.path.abspath(__file__)), 'known_findings.json')
k = json.load(open(p))
k['findings'].append(dict(status='fixed', property=a.prop, commit=a.commit,
                          line='fixed: property=%s %s %s' % (a.prop, a.commit, a.what),
                          witness=dict(description=a.desc, input=a.input, expected=a.expected, observed=a.observed, found_by=a.found_by)))
json.dump(k, open(p, 'w'), indent=1)
print('recorded', a.prop, a.commit)
