#!/bin/sh
# developer aid: ./tools_seed.sh <seed dir with patch.diff demo.py> <name> <check ids...>
# verifies a seeded change in a scratch worktree (tests pass, demo fails with / passes without) and runs checks against it
src="$1"; name="$2"; shift; shift
dir=/tmp/mut/seed_$name
rm -rf "$dir"; mkdir -p /tmp/mut
git -C /repo worktree add --detach -f "$dir" "${SEED_BASE:-HEAD}" >/dev/null 2>&1 || { echo "worktree failed"; exit 2; }
(cd "$dir" && timeout 120 /venv/bin/python "$src/demo.py" >/dev/null 2>&1); echo "demo without change: exit=$?"
git -C "$dir" apply "$src/patch.diff" || { echo "apply failed"; git -C /repo worktree remove --force "$dir"; exit 2; }
git -C "$dir" diff --stat | tail -1
(cd "$dir" && /venv/bin/python -m pytest -q -p no:cacheprovider 2>&1 | tail -1)
(cd "$dir" && timeout 120 /venv/bin/python "$src/demo.py" >/dev/null 2>&1); echo "demo with change: exit=$?"
for c in "$@"; do
  VERIF_EVIDENCE_DIR=/tmp/mut/evidence VERIF_REPO="$dir" timeout 1500 ./check "$c" --tier quick > /tmp/mut/seed_$name.$c.out 2>&1
  echo "$c exit=$? $(grep -c '^VIOLATION' /tmp/mut/seed_$name.$c.out) violations; $(grep -m1 'sig=' /tmp/mut/seed_$name.$c.out | cut -c1-150)"
done
git -C /repo worktree remove --force "$dir"
